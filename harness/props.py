"""Single source of truth for MANIFEST.json (bin/mkmanifest writes it from here)."""

TRUST = ('TLC 1.8 and the CommunityModules Json/IOUtils; the harness codec (abstract value <-> '
         'Python object); Python reference semantics for the primitive operations; bounded universes '
         'stated in the evidence file; random recorded inputs are seeded by VERIF_SEED')

CLAIMED = {
    'C01': dict(
        text='Bounded-exhaustive model checking of the access semantics (GlomAccess!PathEval, written from the '
             'property statement) with three laws checked by TLC on every case, bound to the code in both '
             'directions: every TLC-enumerated (target, path) case is replayed into the real library in every '
             'spelling on plain and on logging containers (identity, part index, carried exception class, '
             'catchability, access log), and executions recorded on random object graphs with sharing and '
             'cycles are validated row by row by TLC against the same operators.',
        design='4/C01',
        technique='TLA+ spec + TLC enumeration, replay into glom, TLC validation of recorded executions'),
    'C02': dict(
        text='TLC explores a machine that grows T expressions one recorded operation at a time over a fixed target heap '
             '(every successful prefix x every operation of the alphabet: attribute, item, slice, call with literal / nested-T / '
             'Spec / container arguments, the ten binary and two unary arithmetic operators), checking four laws on the model '
             '(first failure surfaces, index in range, purity, compositionality); every state is replayed into glom and compared '
             'on value (identity-preserving canonical form) or PathAccessError position and carried class; a plain-Python '
             'interpreter of the same operations cross-checks the model; seeded random longer expressions recorded from glom are '
             'validated by TLC with the same operators.',
        design='4/C02',
        technique='TLA+ spec (GlomT) + TLC prefix-extension machine, replay into glom, TLC validation of recorded executions'),
    'C14': dict(
        text='The BFS law for * and ** (value itself, then descendants breadth-first, every container expanded exactly once, '
             'misses after a wildcard dropped, one fresh list level per wildcard) is written in GlomT and checked by TLC with four '
             'invariants over every 2-cell target graph (all sharing / self-cycle / mutual-cycle shapes) plus a hand-written family '
             '(sets, tuples, strings, attribute objects, raising element access) x every path with >= 1 wildcard at every position; '
             'every case is replayed into glom as text, Path and T spelling with identity-preserving comparison; random cyclic '
             'graphs up to 12 cells with random wildcard paths are recorded from glom and validated by TLC.',
        design='4/C14',
        technique='TLA+ spec (GlomT BFS law) + TLC enumeration of graphs x paths, replay into glom, TLC validation of recorded executions'),
    'C18': dict(
        text='GlomRepr states the sequence semantics of a Path (Python tuple semantics for len / index / slice / concat / '
             'startswith, IndexError out of range) and TLC checks the sequence laws on the model; TLC enumerates every index and '
             'in-range slice triple over paths of up to MaxN steps and every T / Path expression of up to MaxOps operations over '
             'the literal alphabet rooted at T, S, A, with the outcome GlomT predicts on four probe targets; the harness realises '
             'each case with real objects: sequence answers must agree, eval(repr(x)) and pickle must record the same operations, '
             'have the same repr and evaluate identically (and as predicted); glom(t, Path(p, q)) is glom(glom(t, p), q); random '
             'longer paths and slices recorded from real Path objects are validated by TLC.',
        design='4/C18',
        technique='TLA+ sequence/evaluation laws + TLC enumeration, replay on real T/Path objects, TLC validation of recorded slices'),
    'C08': dict(
        text='GlomFrames models one glom call as a machine over an explicit frame table (enter / setmode / argmode / bind / chain / '
             'error actions transcribed from _glom, chain_child and the specifiers); TLC checks on every wrapper/composite tree up to '
             'the bound, in every intermediate frame table, that the mechanism satisfies the lexical-mode law, and that the historic '
             'mechanism (mutant) violates it.  Every tree is replayed with real specs whose probes report how a string, tuple, list and '
             'dict are interpreted; the GLOM_VERIF hook events must equal the model actions (else DRIFT).  GlomShape states the Fill / '
             'argument-position rebuild laws (same type and shape, fresh containers, cyclic lists/dicts preserved), TLC checks them on '
             'every 2-cell container graph and each graph is replayed through Fill, Coalesce default, Call args, S binding and Assign.  '
             'Random deeper trees recorded from glom are validated by TLC.',
        design='4/C08',
        technique='TLA+ frame machine + lexical law (TLC), spec mutant, replay with mode probes, hook-trace validation by TLC'),
    'C07': dict(
        text='The static visibility law (which binder a reader sees: earlier direct steps of enclosing chains -- Pipe, Auto-mode tuple, '
             'Switch key->value, match-dict key->value --, Spec(scope=) ancestors, then the caller scope; globals by execution order) is '
             'stated on the spec tree; TLC checks that the frame mechanism of GlomFrames (ChainMap parents + chain_child re-parenting) '
             'gives every reader exactly that, for every placement of binders and readers in trees up to the bound.  Each tree is '
             'replayed with real S / A / Spec(scope=) / A.globals specs and logging readers, called twice (second call identical, '
             "caller's mapping unchanged); random deeper trees with two names recorded from glom are validated by TLC against law and "
             'mechanism; Vars / globals lifetime by two-call cases.',
        design='4/C07',
        technique='TLA+ frame machine + static visibility law (TLC), replay with logging readers, TLC validation of recorded reader logs'),
    'C05': dict(
        text='GlomFrames runs one call as a machine in which the environment decides leaf by leaf whether it fails; GlomTrace '
             'transcribes _unpack_stack / format_target_spec_trace over the frame table and states six laws of the rendering against '
             'the dynamic parent chain (first line = root target, spine down to the failing spec, target it received, every attempted '
             'branch of the frame itself in order, branch errors, abandoned branches); TLC checks them on every tree / failure plan '
             'within the bound and rejects two mechanism mutants (no NO_PYFRAME walk, no forgiveness).  Each failing run is replayed: '
             'str(error) is parsed line by line into depth / kind / what is shown and compared with the projection of the model '
             'rendering, the last line must be the original error; exact ticks and marks are compared as DRIFT.  Random deeper trees '
             'and plans recorded from glom are validated by TLC.  The error messages of every failing glom() call of the '
             'repository\'s own test-suite are recorded with their scope events (hook) and validated by TLC (Trace_Stack).  '
             'Variants per sampled case: foreign exception classes with their own __str__, errors that cannot be copied, notes on '
             'branch errors, long / non-ASCII / exact-fit / deque / True / empty-string root targets, other widths, a second '
             'evaluation of the same spec objects.',
        design='4/C05',
        technique='TLA+ frame machine + rendering laws (TLC), spec mutants, replay with parsed error messages, TLC validation of recorded traces'),
    'C04': dict(
        text='GlomErrors is a machine whose state is one in-flight exception record (class attributes measured on concrete classes: '
             'ancestors, is-Exception, is-GlomError, result of cls(*args), result of copy.copy) raised at a node and travelling up '
             'through one Pass/Catch action per enclosing construct and one action per branch of the except blocks of glom(); the laws '
             '(class and args kept, GlomError when rebuildable, documented subtype for glom-detected failures, default/skip_exc select '
             'exactly the errors matching at their origin and hand out the default object itself, glom_debug and BaseException-only '
             'errors propagate the original object) are TLC invariants / an action property over every fault class x construct chain '
             'x keyword combination in the bound; every behaviour is replayed on real specs with transparent probe nodes; seeded random '
             'runs are stepped through Trace_C04; spec mutants must violate the laws.',
        design='4/C04',
        technique='TLA+ machine (GlomErrors) + TLC invariants, spec mutants, replay of every behaviour on real specs, TLC validation of recorded runs'),
    'C19': dict(
        text='GlomCli is a machine of the command line (25 actions transcribing cli.py; configuration revealed lazily: spec / target '
             'channels, formats, flags, spec-text classes) with the laws stated from the property (stdout = json.dumps(glom(target, spec), '
             'indent, sort_keys=True) and exit 0; GlomError -> exit 1 naming the class; unreadable / malformed target -> usage error and '
             'no result; Exec only under python-full) checked by TLC with five spec mutants; every terminal behaviour is replayed through '
             'glom.cli.main and real `python -m glom` child processes with real argv / files / stdin, an audit hook (compile / exec / '
             'side effects) and planted markers over an adversarial spec-text grammar; seeded random invocations are validated row by '
             'row by TLC.',
        design='4/C19',
        technique='TLA+ machine + TLC exploration, replay through real argv/files/stdin (in-process and child processes), audit-hook event traces validated by TLC'),
    'C11': dict(
        text='GlomMutate is an explicit Assign state machine with the heap as a variable (EvalVal, FetchParent, FactoryCall, BuildTail, '
             'Store; `*` fans out over a queue of matches; faults -- immutable cells, read-only property, raising setters, factory raising '
             'on its k-th call -- are environment choices) checked by TLC against the plain-Python nested assignment and against state laws '
             'in every intermediate state (NoEarlyWrite, AttachLast, FactoryLaw, NeverReplaced, ReadBack, Outcome), with spec mutants; '
             'every case is replayed in five destination spellings on plain and write-logging / faulting containers (outcome, identity, '
             'documented error class, final heap, factory calls, write log); recorded random executions are stepped through the machine '
             'by TLC.  `*` is covered, `**` is not.',
        design='4/C11',
        technique='TLA+ state machine + TLC (invariants over all intermediate states, spec mutants), replay with fault injection, TLC validation of recorded write logs'),
    'C12': dict(
        text='The Delete branch of the GlomMutate machine (FetchParent.. -> Del, `*` fan-out, deletion faults as environment choices) is '
             'checked by TLC against Python del on the addressed element or nothing: PathDeleteError for a missing final element, '
             'PathAccessError for a missing parent, ignore_missing silencing both, alike for every addressing style (DelFrame, Outcome '
             'laws, spec mutants incl. the historic catch-IndexError-only behaviour); every case is replayed in every spelling on plain '
             'and write-logging / faulting containers; recorded random executions are validated by TLC.',
        design='4/C12',
        technique='TLA+ state machine + TLC (invariants, spec mutants), replay with fault injection, TLC validation of recorded write logs'),
    'C06': dict(
        text='GlomCalls states the law Iso(call, star, registrations) -- the call made alone in a fresh interpreter -- and a frame machine '
             'transcribed from core.py in which Path.from_text and get_handler are separate check / create / store / fetch actions on the '
             'shared path cache (keyed by PATH_STAR, bounded) and type memo (reset by register); TLC proves NonInterference and the frame '
             'condition over all histories of calls / toggles / registrations within the bound and rejects three mechanism mutants; every '
             'history is performed in one pristine forked interpreter and each call compared with the prediction, with the same call made '
             'first in another pristine child and with deep before/after snapshots of target, spec and caller scope; long random histories, '
             'the real 10 000-entry cache overflow and recorded cache / registry events are validated by TLC.',
        design='4/C06',
        technique='TLA+ machine spec + TLC (invariants, action property, mutants), history replay in forked interpreters, TLC validation of recorded cache events'),
    'C20': dict(
        text='The GlomCalls machine with 2-3 concurrent evaluations (private frames, shared caches with separate check / store steps, '
             're-entrant nested calls to depth 3) is model-checked against non-interference (each call = its isolated outcome: value, '
             'observations, error class, error trace) with five mutants that must break it; every schedule at yield-point granularity, and '
             'at Path.from_text step granularity through a str subclass, is replayed with real threads parked on semaphores and released in '
             "TLC's order; free-running thread sessions under a minimal switch interval are validated by TLC.",
        design='4/C20',
        technique='TLA+ machine spec + TLC over interleavings, deterministic replay on real threads, TLC validation of recorded sessions'),
    'C15': dict(
        text='GlomReduce states a pure Python-reference semantics (reduce / sum / n-fold chain / dict.update) next to a heap-level '
             'transcription of Fold / Sum / Flatten / Merge / flatten() / merge(); MC_C15 takes Evaluate twice on one spec object and TLC '
             'checks seven laws (value, init afresh, frame, no input accumulator, FoldError, lazy = eager, independence of evaluations) '
             'with four spec mutants; every case is replayed with plain and call-counting inits, inputs snapshotted and results checked for '
             'identity-disjointness; seeded random inputs are validated row by row by TLC.',
        design='4/C15',
        technique='TLA+ spec + TLC enumeration with spec mutants, replay into glom, TLC validation of recorded executions'),
    'C16': dict(
        text='GlomGroup is a machine (NewEvaluation / Feed(item) / Finish on a stack of evaluations of one spec object) over a transcription '
             'of the ACC_TREE mechanism on an object heap, checked by TLC after every action against the reference-grouping law '
             '(first-occurrence key order, encounter-order values, SKIP leaves no trace, Python references at the leaves) and against '
             'disjointness / freshness of evaluations, with spec mutants including the historic mechanisms; every reachable state is '
             'replayed into glom (every prefix = one call on the re-used spec, nested evaluations through generator targets, two '
             'spellings, three target kinds); recorded random histories are stepped through the same machine by TLC.  Two genuine '
             'defects remain recorded as narrow known findings.',
        design='4/C16',
        technique='TLA+ state machine + TLC, state replay into glom, TLC trace validation of recorded histories'),
    'C17': dict(
        text='GlomStream gives a definitional stream-prefix semantics (Out, Demand, DemandLA, first / all) for every base x stage sequence '
             'x finite / infinite source, a pull machine transcribing each stage\'s buffering (islice / takewhile / dropwhile / chain and '
             'boltons chunked / windowed / split / unique) checked by TLC against output, laziness (pulled <= DemandLA) and termination '
             '(leads-to under weak fairness) laws, and a builder machine over Iter / Invoke derivation histories checked against frame / '
             'extension / freshness laws, with five spec mutants; every case, machine interleaving and builder history is replayed into the '
             'real library with an instrumented source; seeded random pipelines recorded from the library are judged row by row by TLC.',
        design='4/C17',
        technique='TLA+ spec + TLC (invariants, action property, leads-to), replay into glom with pull counting, TLC validation of recorded pull/emit executions'),
    'C13': dict(
        text='GlomRegistry transcribes register / register_op / _register_fuzzy_type / _get_closest_type / get_handler / Glommer '
             'construction as a machine (per registry: ordered type map, ordered nested type tree, memo, auto map) and states separately '
             'the nearest-registered-type law (exact beats ancestors; a function of the set of registrations, hence order- and '
             'history-independent), memo coherence (a register takes effect for the next lookup), isolation of registries and the '
             'fresh-Glommer law; TLC explores all registration orders with interleaved lookups over seven class families x three '
             'registries and rejects eight spec mutants including the historic first-match DFS; every behaviour is replayed on real '
             'classes through glom() / Assign / Delete / Glommer with type-tagged handlers and the projected registry state compared '
             '(drift 0); random histories on random class hierarchies are validated by TLC.',
        design='4/C13',
        technique='TLA+ machine spec + TLC exploration of registration/lookup histories, replay into glom, TLC trace validation, spec mutants'),
    'C03': dict(
        text='GlomAuto!Eval(st, env, target, spec) is a state-passing transcription of the dispatcher and the Auto / Fill / argument-mode '
             'handlers (dict / OrderedDict incl. T / Spec keys, list, tuple, Pipe, callables, Val, Spec, Coalesce with all options, Call, '
             'Invoke, Ref with recursion on nested data) that threads the heap (fresh cells for built containers) and the call log left to '
             'right; the compositional laws L1-L8 (chain equation, dict / list shape with SKIP / STOP, Coalesce first success and nothing '
             'later evaluated, callable receives the current target once, Call / Invoke order, evaluate-once) are separate operators checked '
             'by TLC as invariants at every node of every spec tree enumerated by a postfix stack machine, with four spec mutants; every '
             '(tree, target) case is replayed into glom with instrumented callables (value graph up to renaming of fresh cells, error '
             'class, call log); random type-directed deeper specs recorded from the library are validated row by row by TLC.',
        design='4/C03',
        technique='TLA+ spec + TLC enumeration (postfix tree construction) with law invariants, replay with instrumented callables, TLC validation of recorded executions'),
    'C09': dict(
        text='GlomMatch states the documented matching rules once as a boolean reading Holds and a denoted value Denotes, separately from '
             'a sequential evaluator Ev mirroring matching.py (outcome with permitted exception classes, call log and identity flag); TLC '
             'checks six laws (Decides, Result, Unchanged, ErrClass, Default, Fragment) on every (pattern, target) pair within the bound '
             '(types, literals, list / set / frozenset / tuple / dict patterns with Optional / Required / compound keys, Regex tables, '
             'predicates, And / Or / Not, M) with five spec mutants; every pair is replayed through glom(), Match.verify(), Match.matches() '
             'and Match(default=) with == comparison of results, permitted classes and target snapshots; seeded deeper patterns with '
             'derived conforming targets and one-edit mutations are validated row by row by TLC.',
        design='4/C09',
        technique='TLA+ spec + TLC enumeration with spec mutants, replay into glom, TLC validation of recorded executions'),
    'C10': dict(
        text='The combinator layer of GlomMatch: M / And / Or / Not / Switch / Check trees in constructor and operator forms with defaults, '
             'eight laws incl. the truth-functional reading, result values, short-circuit call-log laws, rejections as MatchError / '
             'CheckError, checked by TLC on every tree x target within the bound and on every Check keyword subset, with six spec mutants '
             'incl. the three historic defects; every case is replayed with instrumented predicates (result, identity, class, call log); '
             'random trees to depth 5 are validated by TLC.',
        design='4/C10',
        technique='TLA+ spec + TLC enumeration with spec mutants, replay into glom, TLC validation of recorded executions'),
}

PENDING_REASON = 'not claimed'
HOOK_COMMITS = ['2d093ff', '983d168']
ALL = ['C%02d' % i for i in range(1, 21)]
