"""C04  Exceptions keep their class; glom failures are GlomErrors; default is selective.

spec -> code: every behaviour of the GlomErrors machine that TLC explores from
spec/MC_C04.tla (chain of enclosing constructs = spec shape with a fault node, exception
class from the catalogue, default/skip_exc/glom_debug combination) is rebuilt as a real glom
spec with concrete exception classes (harness/c04_world.py), run through glom.glom(), and
the record observed after the raise, after every construct and at the exit of glom() is
compared with the machine's history; the law verdict TLC computed for the mechanism's
outcome decides between agreement and (known) violation.
code -> spec: random deeper chains with randomly synthesised exception classes (attributes
measured on Python) are run and recorded; spec/Trace_C04.tla steps the machine through the
recorded events and evaluates the laws on the observed outcome.
"""
import json
import random
import sys

import glom
from glom import GlomError

import vlib
import c04_world as W

PROP = 'C04'
ASSUMPTIONS = [
    'args equality is Python == on the args tuples (identity for members without __eq__); message text and '
    'extra attributes (e.g. OSError.filename, user attributes) are not judged: the property names class, args, '
    'GlomError membership and identity only',
    '"also a GlomError whenever the class can be rebuilt from its args" is asserted for Exception subclasses; '
    'BaseException-only classes (KeyboardInterrupt-like) must propagate as the very same object',
    '"can be rebuilt from its args" = type(e)(*e.args) succeeds and yields equal args',
    'Not(spec) over a passing child (bare GlomError, attributed to C10) and Check(validate=<raises>, default=..) '
    '(disputed in C10) are outside the universe; match-mode callables and T.attr access errors other than '
    'AttributeError are undocumented and left out',
    'fault positions are user callables (spec function, Invoke, T.method()), Check validators, property getters '
    'reached by a path, the next() of a one-shot iterator target (generator, iterator object, generator under a '
    'key) walked by [subspec] at its 1st or 2nd item, the index / argument spec of a T operation (T[Spec(f)], '
    'T[Invoke(f)], T.m(Spec(f))), the key spec of First / Iter().first / (step, First), a method call or index spec '
    'after a T-style wildcard, and glom-detected failures, below chains of constructs; siblings of the chain are fixed '
    'per construct variant',
    'classes that cannot be subclassed (metaclass / __init_subclass__ tricks) are not in the catalogue',
    'StopIteration below the lazy Iter() construct, raised by a generator target (converted to RuntimeError by Python '
    'itself, PEP 479) or inside the key of First (ends the search) is left out; a fault that is itself a '
    'PathAccessError after a wildcard is a documented miss (C14) and left out',
    'skip_exc shapes: a class, a tuple of classes, the empty tuple; a nested tuple of classes or an exception '
    'instance is rejected by Python\'s own except clause (TypeError) and has no meaning for the law',
    'top-level defaults tried: opaque object, None, a list, a dict holding a T expression and a list, T itself, a '
    'namedtuple holding a T expression, and the falsy 0, [], an object with data whose __bool__ is False; '
    'identity of the returned default is what is judged',
    'TLC, the Json community module and the probe nodes (checked to be transparent by probe-less re-runs) are trusted',
]


# ---- known findings ---------------------------------------------------------------------------
def match_finding(f, case):
    """no known finding is recorded for C04 (the two constructor-shape defects were repaired in
    glom, commits 113d6db and 5d8773a): every disagreement is a VIOLATION"""
    return False


# ---- spec -> code -------------------------------------------------------------------------------
_CAT_OK = {}
_TIER = 'quick'


def check_catalogue(leaf):
    """the abstract attributes TLC uses for a catalogue class are the ones Python measures"""
    cid = leaf['id']
    if cid in _CAT_OK or leaf['kind'] == 'glomdoc':
        return
    m = W.measure(W.CATALOGUE[cid](), cid, leaf['kind'])
    for k in ('anc', 'exc', 'glom', 'kind', 'truthy', 'eq'):
        if m[k] != leaf[k]:
            raise vlib.MachineryError('catalogue drift for %s: %s measured %r, spec %r' % (cid, k, m[k], leaf[k]))
    # (how copy.copy treats a subclass of a library class is the library's business: judged by the laws)
    if (not m['glom'] and m['exc'] and m['rec'] != leaf['rec']) or \
            (m['glom'] and cid not in W.LIBSUB and m['cp'] != leaf['cp']):
        raise vlib.MachineryError('catalogue drift for %s: measured %r, spec %r' % (cid, m, leaf))
    _CAT_OK[cid] = True


def n_hows(ctxs, leaf):
    if leaf['kind'] == 'glomdoc':
        return len(W.GLOM_LEAVES[leaf['id']])
    if ctxs and ctxs[-1]['k'] == 'geniter':
        return 4
    if ctxs and ctxs[-1]['k'] in ('checkval', 'pathget', 'targ', 'firstkey', 'afterstar'):
        return 1
    return len(W.USER_HOWS)


def plain_obs(out, world):
    st, obj = out
    if st == 'value':
        return ('value', world.project_out(out, (None, None)))
    return ('raised', type(obj).__name__, len(obj.args), isinstance(obj, GlomError), obj is world.inj)


def run_case(ctxs, leaf, kw, how, make_exc):
    w = W.World(ctxs, leaf, make_exc, how, probes=True)
    out = w.run(kw)
    evs = [e['r'] for e in w.events()]
    arr = w.arrival()
    obs = w.project_out(out, arr)
    return w, out, evs, obs


def site_attr(hist_last, arr):
    attr = {}
    if arr.get('st') == 'raised':
        attr = {'rec': arr['cls']['rec'], 'cp': arr['cls']['cp'], 'kind': arr['cls']['kind']}
    return hist_last, attr


def replay_case(st, res):
    ctxs, leaf, kw, hist, x, arr = st['ctxs'], st['leaf'], st['kw'], st['hist'], st['x'], st['arr']
    check_catalogue(leaf)
    want_evs = [W.proj_model(h['r']) for h in hist[:-1]]
    want_out = W.proj_out_model(x, arr)
    make_exc = None if leaf['kind'] == 'glomdoc' else W.CATALOGUE[leaf['id']]
    arrcid = arr['cls']['id'] if arr['st'] == 'raised' else ''
    nh = n_hows(ctxs, leaf)
    hows = range(nh) if (_TIER == 'thorough' and len(ctxs) <= 1) else [res['cases'] % nh]
    for how in hows:
        w, out, evs, obs = run_case(ctxs, leaf, kw, how, make_exc)
        res['n'] += 1
        base = dict(ctxs=ctxs, leaf=leaf, kw=kw, how=how, hist=[h['a'] for h in hist], ev=evs, out=obs)
        if leaf['kind'] == 'glomdoc' and w.first is not None:
            m = W.measure(w.first, leaf['id'], 'glomdoc')
            if type(w.first) is not W.GLOMDOC[leaf['id']] or any(m[k] != leaf[k] for k in ('anc', 'exc', 'glom', 'cp')):
                res['bad'].append(dict(why='glom-detected failure is not the documented type %s: got %s %r'
                                       % (leaf['id'], type(w.first).__name__, m), case=dict(base, law='Subtype', site='RaiseAt')))
                continue
        if evs != want_evs:
            k = next((j for j in range(min(len(evs), len(want_evs))) if evs[j] != want_evs[j]), min(len(evs), len(want_evs)))
            res['bad'].append(dict(why='after action %s: predicted %s, observed %s'
                                   % (hist[min(k, len(hist) - 1)]['a'], want_evs[k] if k < len(want_evs) else None,
                                      evs[k] if k < len(evs) else None),
                                   case=dict(base, law='chain', site=hist[min(k, len(hist) - 1)]['a'], want=want_evs)))
            continue
        got = W.proj_out_obs(obs, arrcid)
        site, attr = site_attr(hist[-1]['a'], arr)
        if got == want_out:
            if st['lawv']:
                res['bad'].append(dict(why='law %s violated at %s: %s raised, %s left glom() (%s)'
                                       % (st['lawv'], site, arrcid, got.get('cid'), json.dumps(got, sort_keys=True)),
                                       case=dict(base, law=st['lawv'], site=site, attr=attr, obs=got)))
            else:
                res['agree'] += 1
        else:
            res['pending'].append(dict(ctxs=ctxs, leaf=leaf, kw=kw, ev=evs, out=obs, how=how, want=want_out))
        # the same spec objects, exception instance and default object evaluated again, after the
        # first result has been mutated: nothing may be remembered between evaluations
        one_shot = bool(ctxs) and ctxs[-1]['k'] == 'geniter'
        if not one_shot and (res['n'] % 3 == 1 or (_TIER == 'thorough' and len(ctxs) == 0)):
            out2 = w.rerun(kw, out)
            evs2 = [e['r'] for e in w.events()]
            got2 = W.proj_out_obs(w.project_out(out2, w.arrival()), arrcid)
            res['reruns'] += 1
            if evs2 != evs or got2 != got:
                res['bad'].append(dict(why='second evaluation of the same spec objects differs: first %s / %s, second %s / %s'
                                       % (evs, got, evs2, got2), case=dict(base, law='reuse', site='second-evaluation')))
        # probes must be transparent: same outcome without them
        if (_TIER != 'thorough' or len(ctxs) > 1) and res['n'] % 4:
            continue
        w2 = W.World(ctxs, leaf, make_exc, how, probes=False)
        o2 = plain_obs(w2.run(kw), w2)
        if o2 != plain_obs(out, w):
            raise vlib.MachineryError('probe nodes change the outcome: %r vs %r for %r' % (o2, plain_obs(out, w), base))


def worker(states):
    res = dict(n=0, cases=0, nontrivial=0, agree=0, excluded=0, reruns=0, bad=[], pending=[], samples=[],
               actions={})
    for st in states:
        if st['ph'] == 'excluded':
            res['excluded'] += 1
        if st['ph'] != 'done':
            continue
        res['cases'] += 1
        for h in st['hist']:
            res['actions'][h['a']] = res['actions'].get(h['a'], 0) + 1
        if st['ctxs'] or st['kw'] != {'default': 'absent', 'skip': 'absent', 'debug': False}:
            res['nontrivial'] += 1
        if len(res['samples']) < 1 and len(st['ctxs']) >= 1 and st['kw']['skip'] != 'absent':
            res['samples'].append(dict(ctxs=st['ctxs'], leaf=st['leaf']['id'], kw=st['kw'],
                                       hist=[[h['a'], W.proj_model(h['r'])] for h in st['hist']], law=st['lawv']))
        replay_case(st, res)
    return res


# ---- code -> spec -------------------------------------------------------------------------------
BASES = [(Exception,), (ValueError,), (KeyError,), (IndexError,), (LookupError,), (OSError,), (TypeError,),
         (GlomError,), (GlomError, ValueError), (glom.MatchError,), (BaseException,), (ZeroDivisionError,),
         (glom.FoldError,), (glom.BadSpec,)]
CTORS = ['plain', 'keep', 'attrs', 'shrink', 'grow', 'dbl', 'kwonly', 'raise2nd', 'idem', 'copy', 'opt']


def synth(rng):
    """a fresh exception class with a random constructor shape; returns a zero-arg factory"""
    bases = rng.choice(BASES)
    ctor = rng.choice(CTORS)
    a, b = rng.randint(1, 5), rng.randint(1, 5)
    ns = {}
    if ctor == 'plain':
        nargs = rng.randint(1 if bases == (glom.MatchError,) else 0, 3)
        args = tuple([2, 'nf', 'fn'][:nargs]) if bases == (OSError,) else tuple(range(1, nargs + 1))
        mk = lambda cls: cls(*args)
    elif ctor == 'keep':
        def __init__(self, *p):
            super(cls_box[0], self).__init__(*p)
            self.extra = len(p)
        ns['__init__'] = __init__
        mk = lambda cls: cls(a, b)
    elif ctor == 'attrs':
        def __init__(self, p, q=7):
            self.p, self.q = p, q
        ns['__init__'] = __init__
        mk = (lambda cls: cls(a, b)) if rng.random() < 0.5 else (lambda cls: cls(a))
    elif ctor == 'shrink':
        def __init__(self, p, q):
            super(cls_box[0], self).__init__(p + q)
        ns['__init__'] = __init__
        mk = lambda cls: cls(a, b)
    elif ctor == 'grow':
        def __init__(self, p):
            super(cls_box[0], self).__init__(p, p)
        ns['__init__'] = __init__
        mk = lambda cls: cls(a)
    elif ctor == 'dbl':
        def __init__(self, p):
            super(cls_box[0], self).__init__(p * 2)
        ns['__init__'] = __init__
        mk = lambda cls: cls(a)
    elif ctor == 'kwonly':
        def __init__(self, *, code):
            super(cls_box[0], self).__init__(code)
        ns['__init__'] = __init__
        mk = lambda cls: cls(code=a)
    elif ctor == 'raise2nd':
        count = [0]

        def __init__(self, p):
            count[0] += 1
            if count[0] > 1:
                raise RuntimeError('no second instance')
            super(cls_box[0], self).__init__(p)
        ns['__init__'] = __init__
        mk = lambda cls: cls(a)
    elif ctor == 'idem':
        def __init__(self, p):
            super(cls_box[0], self).__init__(abs(p))
        ns['__init__'] = __init__
        mk = lambda cls: cls(-a)
    elif ctor == 'copy':
        def __init__(self, p, q):
            super(cls_box[0], self).__init__(p + q)
            self.p, self.q = p, q

        def __copy__(self):
            return type(self)(self.p, self.q)
        ns['__init__'] = __init__
        ns['__copy__'] = __copy__
        mk = lambda cls: cls(a, b)
    else:  # 'opt': optional second parameter folded into args
        def __init__(self, p, q=None):
            super(cls_box[0], self).__init__(p if q is None else (p, q))
        ns['__init__'] = __init__
        mk = (lambda cls: cls(a, b)) if rng.random() < 0.5 else (lambda cls: cls(a))
    r_eq = rng.random()
    if r_eq < 0.1:               # naive value-based __eq__ (raises on a foreign operand)
        ns['__eq__'] = lambda self, other: self.args == other.args
    elif r_eq < 0.15:            # equal to everything
        ns['__eq__'] = lambda self, other: True
        ns['__hash__'] = BaseException.__hash__
    if rng.random() < 0.15:      # falsy instances
        if rng.random() < 0.5:
            ns['__len__'] = lambda self: 0
        else:
            ns['__bool__'] = lambda self: False
    cls_box = [None]
    cls_box[0] = type('R_%s' % ctor, bases, ns)
    desc = '%s(%s)' % (ctor, ','.join(b_.__name__ for b_ in bases))
    return (lambda: mk(cls_box[0])), desc


PASS_V = ["tuple1", "tuple2", "dict", "list", "pipe", "spec", "auto", "fill", "invoke", "ref", "iter",
          "and", "orlast", "match", "swval"]


def rand_ctx(rng):
    k = rng.choice(['pass', 'pass', 'coal', 'coal', 'or', 'and', 'not', 'matchdef', 'switch', 'checkspec'])
    c = dict(k=k, v='-', skip='-', sib='-', dflt='-')
    if k == 'pass':
        c['v'] = rng.choice(PASS_V)
    elif k == 'coal':
        c.update(skip=rng.choice(['default', 'exact', 'other', 'tuple', 'tuple_non', 'exception', 'keyerror',
                                  'glomerror', 'base', 'empty']),
                 sib=rng.choice(['none', 'ok']), dflt=rng.choice(['absent', 'obj']))
    elif k == 'or':
        c['v'] = rng.choice(['first', 'last'])
        c.update(sib='ok' if c['v'] == 'first' else 'none', dflt='absent' if c['v'] == 'first' else rng.choice(['absent', 'obj']))
    elif k in ('and', 'matchdef'):
        c['dflt'] = rng.choice(['absent', 'obj'])
    elif k == 'switch':
        c.update(v='key', sib=rng.choice(['none', 'ok']), dflt=rng.choice(['absent', 'obj']))
    return c


KW_DEFAULTS = ['absent', 'obj', 'none', 'list', 'dictT', 't', 'ntup', 'zero', 'elist', 'fobj']
KW_SKIPS = ['absent', 'exact', 'other', 'tuple', 'tuple_non', 'glomerror', 'exception', 'keyerror', 'base', 'empty']


def rand_row(rng):
    n = rng.choice([0, 1, 2, 2, 3, 3, 4, 5])
    ctxs = [rand_ctx(rng) for _ in range(n)]
    r = rng.random()
    desc = ''
    if r < 0.15:
        cid = rng.choice(sorted(W.GLOMDOC))
        leaf, make_exc = None, None
        kind = 'glomdoc'
    elif r < 0.3:
        cid = rng.choice(sorted(W.CATALOGUE))
        make_exc, kind = W.CATALOGUE[cid], 'cat'
    else:
        make_exc, desc = synth(rng)
        cid, kind = 'RCls', 'user'
    if kind != 'glomdoc' and rng.random() < 0.4:
        lk = rng.choice(['checkval', 'pathget', 'geniter', 'geniter', 'targ', 'targ', 'firstkey', 'firstkey',
                         'afterstar', 'afterstar'])
        ctxs.append(dict(k=lk, v=rng.choice(['k1', 'k2', 'k3']) if lk == 'geniter' else
                         rng.choice(['idx_spec', 'idx_invoke', 'call_spec']) if lk == 'targ' else
                         rng.choice(['first', 'iterfirst', 'afterstep']) if lk == 'firstkey' else
                         rng.choice(['call', 'ss_call', 'idx_spec']) if lk == 'afterstar' else '-', skip='-', sib='-', dflt='-'))
    kw = dict(default=rng.choice(KW_DEFAULTS), skip=rng.choice(KW_SKIPS), debug=rng.random() < 0.3)
    how = rng.randint(0, 11)
    if kind == 'glomdoc':
        leaf = dict(id=cid, kind='glomdoc')
        w = W.World(ctxs, leaf, None, how)
    else:
        w = W.World(ctxs, dict(id=cid, kind='user'), make_exc, how)
        leaf = W.measure(w.inj, cid, 'builtin' if cid in ('Exception', 'ValueError', 'KeyError', 'IndexError', 'TypeError', 'StopIter', 'Os2', 'Os3', 'Uni5', 'BKbd') else 'user')
        w.leaf = leaf
    out = w.run(kw)
    evs = w.events()
    if kind == 'glomdoc':
        if w.first is None:
            raise vlib.MachineryError('glom leaf %s did not fail' % cid)
        leaf = W.measure(w.first, cid, 'glomdoc')
    # StopIteration through a generator frame (Iter, generator target): Python's own conversion
    if cid == 'StopIter' and any((c['k'] == 'pass' and c['v'] == 'iter') or c['k'] in ('geniter', 'firstkey') for c in ctxs):
        return None
    if cid == 'SubPAE' and any(c['k'] == 'afterstar' for c in ctxs):
        return None
    # Not over a passing child: outside the universe
    for e in evs:
        if e['r']['st'] == 'value' and e['lvl'] >= 1 and ctxs[e['lvl'] - 1]['k'] == 'not':
            return None
    obs = w.project_out(out, w.arrival())
    return dict(ctxs=ctxs, leaf=leaf, kw=kw, ev=[e['r'] for e in evs], out=obs, how=how, desc=desc)


def judge_rows(check, rows, label, stats):
    """let TLC (Trace_C04) step the machine through the rows and evaluate the laws"""
    rejects = vlib.validate_rows(check, 'Trace_C04', rows, label, chunk=2000 if len(rows) <= 20000 else 10000)
    for row, rej in rejects:
        kind = rej.get('kind')
        arr = row['ev'][-1] if row['ev'] else {}
        if kind == 'drift':
            stats['drift'] = stats.get('drift', 0) + 1
            check.extra.setdefault('drift_samples', [])
            if len(check.extra['drift_samples']) < 3:
                check.extra['drift_samples'].append(dict(row=row, clause=rej['clause']))
            continue
        site, attr = '', {}
        if arr.get('st') == 'raised':
            site = 'TopCopy' if arr['glom'] else 'TopWrap'
            if arr['cid'] == row['leaf']['id']:
                attr = {'rec': row['leaf']['rec'], 'cp': row['leaf']['cp'], 'kind': row['leaf']['kind']}
        acid = arr.get('cid', '')
        case = dict(row=row, law=rej['clause'] if kind == 'law' else 'chain', site=site if kind == 'law' else rej['clause'],
                    attr=attr, obs=W.proj_out_obs(row['out'], acid), source=label)
        check.violation(case, 'recorded execution rejected by the specification (%s): %s; %s raised, observed outcome %s'
                        % (kind, rej['clause'], acid, json.dumps(case['obs'], sort_keys=True)), matcher=match_finding)
    return rejects


def record(check, n, seed, stats):
    rng = random.Random(seed)
    rows = []
    tries = 0
    while len(rows) < n and tries < 3 * n:
        tries += 1
        row = rand_row(rng)
        if row is not None:
            rows.append(row)
    rejected = {id(r) for r, _ in judge_rows(check, rows, 'random', stats)}
    nt = set()
    for row in rows:
        check.cov['evaluations'] += 1
        nt.add(json.dumps([row['ctxs'], row['leaf'], row['kw']], sort_keys=True))
    check.cov['distinct_nontrivial'] += len(nt)
    for row in rows[:2]:
        check.sample(dict(kind='recorded', **row), limit=6)
    check.extra['recorded_rows'] = len(rows)
    return [r for r in rows if id(r) not in rejected]


def corrupted_row_rejected(check, rows):
    """machinery self-test: an accepted recorded row with one corrupted field must be rejected"""
    base = next((r for r in rows if r['out']['st'] == 'raised' and r['out']['args'] == 'same'
                 and r['out']['id'] in ('copy', 'wrap')), None)
    if base is None:
        raise vlib.MachineryError('no row suitable for the corruption self-test')
    bad = json.loads(json.dumps(base))
    bad['out']['args'] = 'diff'
    tmp = vlib.Check(PROP, check.tier, check.seed)
    rej = vlib.validate_rows(tmp, 'Trace_C04', [base, bad], 'selftest')
    got = [(r is bad or r == bad, j['clause']) for r, j in rej]
    if len(rej) != 1 or rej[0][1].get('clause') != 'ClassKept' or rej[0][1].get('reject') != 2:
        raise vlib.MachineryError('corrupted row not rejected as expected: %r' % (got,))
    check.extra['corrupted_row_rejected'] = True


MUTANTS = {'falsy_default_dropped': 'InvDefaultSelective', 'eq_compare': 'CreatedAreDocumented', 'firstkey_nested_top': 'TransparentLaw',
           'star_drops_glomerror': 'TransparentLaw', 'falsy_swallowed': 'InvClassKept', 'copy_hardcodes_base': 'InvClassKept',
           'falsy_skip_omitted': 'InvDefaultSelective', 'arg_in_guard': 'TransparentLaw', 'default_arg_val': 'InvDefaultSelective', 'iter_wraps': 'CreatedAreDocumented', 'copy_unguarded': 'InvClassKept', 'ctor_rerun': 'InvClassKept', 'skip_after_wrap': 'InvDefaultSelective', 'default_none_absent': 'InvDefaultSelective',
           'debug_copies': 'InvDebug', 'wrap_glom_only': 'InvClassKept', 'wrap_no_fallback': 'InvClassKept',
           'or_catches_all': 'PassThroughLaw'}


def tlc_consts(mutant, mind, maxd, rich, kwmode):
    b = lambda v: 'TRUE' if v else 'FALSE'
    return dict(Mutant='"%s"' % mutant, MinDepth=mind, MaxDepth=maxd, Rich=b(rich), KwMode='"%s"' % kwmode)


def _t(label, t0=[None]):
    import time
    now = time.time()
    if t0[0] is not None and __import__('os').environ.get('C04_TIMING'):
        print('  [%s: %.1fs]' % (label, now - t0[0]))
    t0[0] = now


def main(tier, seed):
    global _TIER
    _t('start')
    _TIER = tier
    check = vlib.Check(PROP, tier, seed)
    stats = {}
    for m in ('GlomErrors', 'MC_C04', 'Trace_C04'):
        ok, out = vlib.sany(m)
        if not ok:
            raise vlib.MachineryError('sany failed on %s:\n%s' % (m, out[-2000:]))
    # (1)+(2) TLC checks every law on the transcribed mechanism (MC_C04.cfg) while exploring the
    # behaviours; the same run is dumped and every behaviour replayed into the real library
    runs = {'quick': [(0, 0, True, 'full'), (1, 1, True, 'mid'), (2, 2, False, 'tiny')],
            'thorough': [(0, 1, True, 'full'), (2, 2, True, 'tiny'), (3, 3, False, 'tiny')]}[tier]
    acts, pending = {}, []
    total = dict(cases=0, agree=0, excluded=0, reruns=0)
    for (mind, maxd, rich, kwmode) in runs:
        c = tlc_consts('none', mind, maxd, rich, kwmode)
        res, results = vlib.map_states('MC_C04', worker, constants=c, heap='2g')
        check.add_tlc(res, 'MC_C04 %s' % c)
        for r in results:
            check.cov['evaluations'] += r['n']
            check.cov['distinct_nontrivial'] += r['nontrivial']
            for k in total:
                total[k] += r[k]
            check.validated(r['agree'])
            for a, cnt in r['actions'].items():
                acts[a] = acts.get(a, 0) + cnt
            for s in r['samples']:
                check.sample(s)
            for b in r['bad']:
                check.violation(b['case'], b['why'], matcher=match_finding)
            pending += r['pending']
    _t('replay')
    check.extra['replayed'] = total
    check.extra['action_counts'] = acts
    needed = ['RaiseAt', 'Pass', 'CatchCoalesce', 'CatchOr', 'CatchAnd', 'CatchNot', 'CatchMatchDefault',
              'CatchSwitch', 'CatchCheckSpec', 'CatchCheckVal', 'CatchPathGet', 'PassIter', 'PassArg', 'PassFirstKey', 'PassAfterStar', 'TopReturn', 'TopSkip', 'TopBase',
              'TopDebug', 'TopCopy', 'TopWrap']
    missing = [a for a in needed if not acts.get(a)]
    if missing or not total['excluded']:
        raise vlib.MachineryError('vacuity: actions never taken: %s (excluded=%d)' % (missing, total['excluded']))
    if pending:   # outcome differs from the mechanism's prediction: let the laws decide (violation or drift)
        judge_rows(check, pending, 'replay-mismatch', stats)
    # (3) code -> spec
    rows = record(check, {'quick': 8000, 'thorough': 40000}[tier], seed, stats)
    _t('record')
    check.extra['drift'] = stats.get('drift', 0)
    corrupted_row_rejected(check, rows)
    # (4) spec mutants (thorough): each wrong mechanism variant must violate its law
    if tier == 'thorough':
        mres = {}
        for m, law in MUTANTS.items():
            r = vlib.run_tlc('MC_C04', cfg='MC_C04_mut_' + m)
            mres[m] = r['violated']
            if r['violated'] != law:
                raise vlib.MachineryError('spec mutant %s: expected %s violated, TLC says %r' % (m, law, r['violated']))
        check.extra['spec_mutants'] = mres
    check.assumptions += ASSUMPTIONS
    return check.finish(
        rule='TLC explores every behaviour (chain of constructs, fault class, kwargs) of the GlomErrors machine within '
             'the depth bounds; each terminal state is replayed once per concrete fault realisation; random rows are '
             'distinct by (chain, class attributes, kwargs); non-trivial = at least one enclosing construct or a '
             'non-default keyword argument',
        exhaustive=True)


def replay(path):
    with open(path) as f:
        v = json.load(f)
    case = v['case']
    row = case.get('row', case)
    ctxs, leaf, kw, how = row['ctxs'], row['leaf'], row['kw'], row.get('how', 0)
    if leaf['kind'] == 'glomdoc':
        make_exc = None
    elif leaf['id'] in W.CATALOGUE:
        make_exc = W.CATALOGUE[leaf['id']]
    else:
        print('synthesised class (%s): re-run with the same seed to reproduce' % row.get('desc'))
        return 0
    w, out, evs, obs = run_case(ctxs, leaf, kw, how, make_exc)
    print('spec   :', w.spec)
    print('kwargs :', w.kwargs(kw))
    print('events :', json.dumps(evs))
    print('outcome:', json.dumps(obs, sort_keys=True), repr(out[1]))
    rej = vlib.validate_rows(vlib.Check(PROP, 'quick', 0), 'Trace_C04',
                             [dict(ctxs=ctxs, leaf=leaf, kw=kw, ev=evs, out=obs)], 'replay')
    for _, j in rej:
        print('rejected by the specification:', j)
    return 1 if any(j.get('kind') != 'drift' for _, j in rej) else 0
