"""C17 helpers: abstract <-> concrete for stream items, stages, sources; instrumented
source; running a real Iter pipeline and projecting what the property names."""
import collections

from glom import glom, Iter, Invoke, T, S, SKIP, STOP, Spec, Check, Val

SENT = {'SKIP': SKIP, 'STOP': STOP}


class Wildcard:
    "compares equal to anything (mock.ANY-like); truthy; unhashable"
    def __eq__(self, other):
        return True

    def __ne__(self, other):
        return False
    __hash__ = None

    def __repr__(self):
        return 'WILD'


class Null:
    "three-valued logic: every comparison with NULL is NULL, and NULL is falsy; unhashable"
    def __eq__(self, other):
        return self
    __ne__ = __eq__

    def __bool__(self):
        return False
    __hash__ = None

    def __repr__(self):
        return 'NULL'


WILD, NULL = Wildcard(), Null()
# the scope every real call is made under (keys spelled _S read it): passed via scope= or bound by S(..)
SCOPE = {'cut': 2, 'one': 1}


# ---- container classes used to represent items / targets ------------------------------------------
class FalsyList(list):
    "a list subclass whose instances are falsy whatever they hold (abstract kind 'flist')"
    def __bool__(self):
        return False


class ListSub(list):
    "a list subclass overriding __iter__ and __getitem__ (same abstract value as the plain list)"
    def __iter__(self):
        for i in range(len(self)):
            yield list.__getitem__(self, i)

    def __getitem__(self, i):
        return list.__getitem__(self, i)


Pair = collections.namedtuple('Pair', 'a b')       # a tuple subclass whose constructor takes no iterable


class TupSub(tuple):
    "a tuple subclass with a positional constructor"
    __slots__ = ()

    def __new__(cls, *items):
        return tuple.__new__(cls, items)


# ---- values -------------------------------------------------------------------------------
def dec(v, sub=False):
    """abstract -> Python; sub=True represents lists / tuples by subclass instances (the law is the same)"""
    k = v['k']
    if k == 'int':
        return v['i']
    if k == 'bool':
        return v['b']
    if k == 'flist':
        return FalsyList(dec(x, sub) for x in v['items'])
    if k == 'none':
        return None
    if k == 'any':
        return WILD
    if k == 'null':
        return NULL
    if k == 'sent':
        return SENT[v['s']]
    if k == 'list':
        items = [dec(x, sub) for x in v['items']]
        return ListSub(items) if sub else items
    if k == 'tuple':
        items = [dec(x, sub) for x in v['items']]
        if not sub:
            return tuple(items)
        return Pair(*items) if len(items) == 2 else TupSub(*items)
    if k == 'str':
        return v['s']
    raise ValueError('cannot decode %r' % (v,))


def enc(x):
    if x is WILD:
        return {'k': 'any'}
    if x is NULL:
        return {'k': 'null'}
    if x is SKIP:
        return {'k': 'sent', 's': 'SKIP'}
    if x is STOP:
        return {'k': 'sent', 's': 'STOP'}
    if x is None:
        return {'k': 'none'}
    if type(x) is bool:
        return {'k': 'bool', 'b': x}
    if type(x) is int:
        return {'k': 'int', 'i': x}
    if type(x) is FalsyList:
        return {'k': 'flist', 'items': [enc(y) for y in x]}
    if type(x) in (ListSub,):
        return {'k': 'list', 'items': [enc(y) for y in list.__iter__(x)]}
    if type(x) in (Pair, TupSub):
        return {'k': 'tuple', 'items': [enc(y) for y in tuple.__iter__(x)]}
    if type(x) is list:
        return {'k': 'list', 'items': [enc(y) for y in x]}
    if type(x) is tuple:
        return {'k': 'tuple', 'items': [enc(y) for y in x]}
    if type(x) is str:
        return {'k': 'str', 's': x}
    return {'k': 'opaque', 'r': type(x).__name__}


# ---- the fixed library of callables (total; same semantics as GlomStream!ApplyFn / PredFn) ----
def _inc(x):
    return x + 1 if type(x) is int else x


def _skip_odd(x):
    return SKIP if type(x) is int and x % 2 == 1 else x


def _stop_at2(x):
    return STOP if type(x) is int and x == 2 else x


def _dup(x):
    return [x, x]


def _mod2(x):
    return x % 2 if type(x) is int else x


def _lt2(x):
    return type(x) is int and x < 2


def _odd(x):
    return type(x) is int and x % 2 == 1


def _item0(x):
    return x[0]


def _cnt0(x):
    return x.count(0)


def _ltc(x, c):
    return type(x) is int and x < c


def _addc(x, c):
    return x + c if type(x) is int else x


def _modc(x, c):
    return x % c if type(x) is int else x


def _notnone(x):
    return x is not None


def _even(x):
    return type(x) is int and x % 2 == 0


def _isempty(x):
    return isinstance(x, (list, tuple)) and len(x) == 0


# name -> glom spec.  The suffix is the spelling (GlomStream!Spelling): plain Python callable, _T a T
# expression, _str a path string, _tup a tuple chain, _spec Spec(..), _check a Check (filter only).
FNS = {'T': T, 'inc': _inc, 'skip_odd': _skip_odd, 'stop_at2': _stop_at2, 'dup': _dup, 'mod2': _mod2,
       'lt2': _lt2, 'odd': _odd, 'item0': _item0, 'cnt0': _cnt0, 'notnone': _notnone, 'even': _even,
       'isempty': _isempty,
       'item0_T': T[0], 'item0_str': '0', 'item0_spec': Spec(T[0]), 'cnt0_T': T.count(0),
       'inc_tup': (T, _inc), 'inc_spec': Spec(_inc), 'mod2_tup': (T, _mod2),
       'lt2_tup': (T, _lt2), 'lt2_spec': Spec(_lt2), 'lt2_check': Check(validate=_lt2, default=SKIP),
       'odd_spec': Spec(_odd),
       'lt2_S': Invoke(_ltc).specs(T, S.cut), 'inc_S': Invoke(_addc).specs(T, S.one),
       'mod2_S': Invoke(_modc).specs(T, S.cut)}


# ---- specs -----------------------------------------------------------------------------------
def base_spec(st, alt_spelling=False):
    kw = {}
    if st['b'] == 1:
        kw['sentinel'] = dec(st['v'])
    if st['f'] == 'T':
        return Iter(T, **kw) if alt_spelling else Iter(**kw)
    return Iter(FNS[st['f']], **kw)


def add_stage(spec, st, alt_spelling=False):
    k = st['kind']
    if k == 'map':
        return spec.map(FNS[st['f']])
    if k == 'filter':
        return spec.filter() if (st['f'] == 'T' and alt_spelling) else spec.filter(FNS[st['f']])
    if k == 'takewhile':
        return spec.takewhile() if (st['f'] == 'T' and alt_spelling) else spec.takewhile(FNS[st['f']])
    if k == 'dropwhile':
        return spec.dropwhile() if (st['f'] == 'T' and alt_spelling) else spec.dropwhile(FNS[st['f']])
    if k == 'unique':
        return spec.unique() if (st['f'] == 'T' and alt_spelling) else spec.unique(FNS[st['f']])
    if k == 'slice':
        a, b, c = st['a'], st['b'], st['c']
        stop = None if b == -1 else b
        if st['f'] == 'limit':
            return spec.limit(b)
        if st['f'] == 'slice1':              # single-argument spelling slice(n)
            return spec.slice(b)
        if c == 1:
            return spec.slice(a, stop)
        return spec.slice(a, stop, c)
    if k == 'chunked':
        return spec.chunked(st['a'], fill=dec(st['v'])) if st['b'] == 1 else spec.chunked(st['a'])
    if k == 'windowed':
        return spec.windowed(st['a'])
    if k == 'split':
        kw = {}
        if st['b'] != -1:
            kw['maxsplit'] = st['b']
        if st['f'] == 'none':
            return spec.split(**kw)
        if st['f'] == 'scalar':
            return spec.split(sep=dec(st['v']), **kw)
        if st['f'] == 'fn':                    # a callable separator, named by a string value
            return spec.split(sep=FNS[st['v']['s']], **kw)
        return spec.split(sep=[dec(st['v'])], **kw)
    if k == 'flatten':
        return spec.flatten()
    raise ValueError('unknown stage %r' % (st,))


def build_iter(pipe, alt_spelling=False):
    spec = base_spec(pipe[0], alt_spelling)
    for st in pipe[1:]:
        spec = add_stage(spec, st, alt_spelling)
    return spec


def exc_name(e):
    return 'TypeError' if isinstance(e, TypeError) else type(e).__name__


# ---- sources ---------------------------------------------------------------------------------
class BudgetExceeded(Exception):
    """the instrumented infinite source was asked for more than the horizon"""


class Source:
    """iterator over a source descriptor that counts what is pulled from it"""

    def __init__(self, srcd, budget, log=None, sub=False):
        self.kind = srcd['kind']
        self.items = [dec(x, sub) for x in srcd['items']]
        self.budget = budget
        self.n = 0
        self.ended = False
        self.log = log

    def __iter__(self):
        return self

    def __next__(self):
        if self.kind == 'fin':
            if self.n >= len(self.items):
                if not self.ended:
                    self.ended = True
                    if self.log is not None:
                        self.log.append('x')
                raise StopIteration
            v = self.items[self.n]
        else:
            if self.n >= self.budget:
                raise BudgetExceeded()
            v = self.n if self.kind == 'count' else self.items[self.n % len(self.items)]
        self.n += 1
        if self.log is not None:
            self.log.append('p')
        return v

    @property
    def events(self):
        return self.n + (1 if self.ended else 0)


def call_glom(src, spec, bind_in_spec=False):
    """every real call runs under SCOPE: handed over with scope= or bound by S(..) earlier in the same spec"""
    if bind_in_spec:
        return glom(src, (S(cut=Val(SCOPE['cut']), one=Val(SCOPE['one'])), spec))
    return glom(src, spec, scope=dict(SCOPE))


def run_iter(spec, srcd, kmax, budget, want_ev=False, bind_in_spec=False, sub=False):
    """glom(source, spec), then up to kmax next() calls.  Returns the observation:
    outs (abstract), ended, pulled[k] = source events after k calls, budget, exc, ev."""
    log = [] if want_ev else None
    src = Source(srcd, budget, log, sub)
    obs = dict(outs=[], ended=False, pulled=[], budget=False, exc='', ev=log if want_ev else [])
    try:
        it = call_glom(src, spec, bind_in_spec)
    except BudgetExceeded:
        obs['budget'] = True
        return obs
    except Exception as e:
        obs['exc'] = exc_name(e)
        return obs
    if log is not None:
        log.append('b')
    obs['pulled'].append(src.events)
    for _ in range(kmax):
        try:
            v = next(it)
        except StopIteration:
            obs['ended'] = True
            if log is not None:
                log.append('f')
            obs['pulled'].append(src.events)
            break
        except BudgetExceeded:
            obs['budget'] = True
            break
        except Exception as e:
            obs['exc'] = exc_name(e)
            break
        obs['outs'].append(enc(v))
        if log is not None:
            log.append('e')
        obs['pulled'].append(src.events)
    return obs


TARGET_KINDS = ('list', 'tuple', 'listsub', 'flist', 'gen')


def make_target(srcd, kind, sub=False):
    """a finite source as an ordinary iterable target: plain list / tuple, a list subclass overriding
    __iter__, a falsy list subclass holding the data, a generator"""
    items = [dec(x, sub) for x in srcd['items']]
    return {'list': list, 'tuple': tuple, 'listsub': ListSub, 'flist': FalsyList,
            'gen': lambda xs: (x for x in xs)}[kind](items)


def run_terminal(spec, srcd, budget, bind_in_spec=False, sub=False, target=None):
    """glom(source, spec) for a terminal spec (first() / all()): value, source events, exc.
    target: None = the instrumented one-shot Source; else one of TARGET_KINDS (no pull counting)"""
    if target is not None:
        try:
            return dict(v=call_glom(make_target(srcd, target, sub), spec, bind_in_spec), pulled=0, budget=False, exc='')
        except Exception as e:
            return dict(v=None, pulled=0, budget=False, exc=exc_name(e))
    src = Source(srcd, budget, None, sub)
    try:
        v = call_glom(src, spec, bind_in_spec)
    except BudgetExceeded:
        return dict(v=None, pulled=src.events, budget=True, exc='')
    except Exception as e:
        return dict(v=None, pulled=src.events, budget=False, exc=exc_name(e))
    return dict(v=v, pulled=src.events, budget=False, exc='')


# ---- Invoke ------------------------------------------------------------------------------------
def echo(*a, **kw):
    return (a, kw)


def invoke_method(spec, meth):
    def arg(v):
        return T if (v.get('k') == 'str' and v.get('s') == 'T') else dec(v)
    pos = [arg(v) for v in meth['pos']]
    kw = {dec(k): arg(v) for k, v in meth['kw']}
    if meth['m'] == 'constants':
        return spec.constants(*pos, **kw)
    if meth['m'] == 'specs':
        return spec.specs(*pos, **kw)
    if meth['m'] == 'star':
        return spec.star(args=T)
    raise ValueError(meth)
