"""C17 helpers: abstract <-> concrete for stream items, stages, sources; instrumented
source; running a real Iter pipeline and projecting what the property names."""
from glom import glom, Iter, Invoke, T, S, SKIP, STOP, Spec, Check, Val

SENT = {'SKIP': SKIP, 'STOP': STOP}


class Wildcard:
    "compares equal to anything (mock.ANY-like); truthy; unhashable"
    def __eq__(self, other):
        return True

    def __ne__(self, other):
        return False
    __hash__ = None

    def __repr__(self):
        return 'WILD'


class Null:
    "three-valued logic: every comparison with NULL is NULL, and NULL is falsy; unhashable"
    def __eq__(self, other):
        return self
    __ne__ = __eq__

    def __bool__(self):
        return False
    __hash__ = None

    def __repr__(self):
        return 'NULL'


WILD, NULL = Wildcard(), Null()
# the scope every real call is made under (keys spelled _S read it): passed via scope= or bound by S(..)
SCOPE = {'cut': 2, 'one': 1}


# ---- values -------------------------------------------------------------------------------
def dec(v):
    k = v['k']
    if k == 'int':
        return v['i']
    if k == 'none':
        return None
    if k == 'any':
        return WILD
    if k == 'null':
        return NULL
    if k == 'sent':
        return SENT[v['s']]
    if k == 'list':
        return [dec(x) for x in v['items']]
    if k == 'tuple':
        return tuple(dec(x) for x in v['items'])
    if k == 'str':
        return v['s']
    raise ValueError('cannot decode %r' % (v,))


def enc(x):
    if x is WILD:
        return {'k': 'any'}
    if x is NULL:
        return {'k': 'null'}
    if x is SKIP:
        return {'k': 'sent', 's': 'SKIP'}
    if x is STOP:
        return {'k': 'sent', 's': 'STOP'}
    if x is None:
        return {'k': 'none'}
    if type(x) is int:
        return {'k': 'int', 'i': x}
    if type(x) is list:
        return {'k': 'list', 'items': [enc(y) for y in x]}
    if type(x) is tuple:
        return {'k': 'tuple', 'items': [enc(y) for y in x]}
    if type(x) is str:
        return {'k': 'str', 's': x}
    return {'k': 'opaque', 'r': type(x).__name__}


# ---- the fixed library of callables (total; same semantics as GlomStream!ApplyFn / PredFn) ----
def _inc(x):
    return x + 1 if type(x) is int else x


def _skip_odd(x):
    return SKIP if type(x) is int and x % 2 == 1 else x


def _stop_at2(x):
    return STOP if type(x) is int and x == 2 else x


def _dup(x):
    return [x, x]


def _mod2(x):
    return x % 2 if type(x) is int else x


def _lt2(x):
    return type(x) is int and x < 2


def _odd(x):
    return type(x) is int and x % 2 == 1


def _item0(x):
    return x[0]


def _cnt0(x):
    return x.count(0)


def _ltc(x, c):
    return type(x) is int and x < c


def _addc(x, c):
    return x + c if type(x) is int else x


def _modc(x, c):
    return x % c if type(x) is int else x


def _notnone(x):
    return x is not None


def _even(x):
    return type(x) is int and x % 2 == 0


def _isempty(x):
    return type(x) in (list, tuple) and len(x) == 0


# name -> glom spec.  The suffix is the spelling (GlomStream!Spelling): plain Python callable, _T a T
# expression, _str a path string, _tup a tuple chain, _spec Spec(..), _check a Check (filter only).
FNS = {'T': T, 'inc': _inc, 'skip_odd': _skip_odd, 'stop_at2': _stop_at2, 'dup': _dup, 'mod2': _mod2,
       'lt2': _lt2, 'odd': _odd, 'item0': _item0, 'cnt0': _cnt0, 'notnone': _notnone, 'even': _even,
       'isempty': _isempty,
       'item0_T': T[0], 'item0_str': '0', 'item0_spec': Spec(T[0]), 'cnt0_T': T.count(0),
       'inc_tup': (T, _inc), 'inc_spec': Spec(_inc), 'mod2_tup': (T, _mod2),
       'lt2_tup': (T, _lt2), 'lt2_spec': Spec(_lt2), 'lt2_check': Check(validate=_lt2, default=SKIP),
       'odd_spec': Spec(_odd),
       'lt2_S': Invoke(_ltc).specs(T, S.cut), 'inc_S': Invoke(_addc).specs(T, S.one),
       'mod2_S': Invoke(_modc).specs(T, S.cut)}


# ---- specs -----------------------------------------------------------------------------------
def base_spec(st, alt_spelling=False):
    kw = {}
    if st['b'] == 1:
        kw['sentinel'] = dec(st['v'])
    if st['f'] == 'T':
        return Iter(T, **kw) if alt_spelling else Iter(**kw)
    return Iter(FNS[st['f']], **kw)


def add_stage(spec, st, alt_spelling=False):
    k = st['kind']
    if k == 'map':
        return spec.map(FNS[st['f']])
    if k == 'filter':
        return spec.filter() if (st['f'] == 'T' and alt_spelling) else spec.filter(FNS[st['f']])
    if k == 'takewhile':
        return spec.takewhile() if (st['f'] == 'T' and alt_spelling) else spec.takewhile(FNS[st['f']])
    if k == 'dropwhile':
        return spec.dropwhile() if (st['f'] == 'T' and alt_spelling) else spec.dropwhile(FNS[st['f']])
    if k == 'unique':
        return spec.unique() if (st['f'] == 'T' and alt_spelling) else spec.unique(FNS[st['f']])
    if k == 'slice':
        a, b, c = st['a'], st['b'], st['c']
        stop = None if b == -1 else b
        if st['f'] == 'limit':
            return spec.limit(b)
        if st['f'] == 'slice1':              # single-argument spelling slice(n)
            return spec.slice(b)
        if c == 1:
            return spec.slice(a, stop)
        return spec.slice(a, stop, c)
    if k == 'chunked':
        return spec.chunked(st['a'], fill=dec(st['v'])) if st['b'] == 1 else spec.chunked(st['a'])
    if k == 'windowed':
        return spec.windowed(st['a'])
    if k == 'split':
        kw = {}
        if st['b'] != -1:
            kw['maxsplit'] = st['b']
        if st['f'] == 'none':
            return spec.split(**kw)
        if st['f'] == 'scalar':
            return spec.split(sep=dec(st['v']), **kw)
        if st['f'] == 'fn':                    # a callable separator, named by a string value
            return spec.split(sep=FNS[st['v']['s']], **kw)
        return spec.split(sep=[dec(st['v'])], **kw)
    if k == 'flatten':
        return spec.flatten()
    raise ValueError('unknown stage %r' % (st,))


def build_iter(pipe, alt_spelling=False):
    spec = base_spec(pipe[0], alt_spelling)
    for st in pipe[1:]:
        spec = add_stage(spec, st, alt_spelling)
    return spec


def exc_name(e):
    return 'TypeError' if isinstance(e, TypeError) else type(e).__name__


# ---- sources ---------------------------------------------------------------------------------
class BudgetExceeded(Exception):
    """the instrumented infinite source was asked for more than the horizon"""


class Source:
    """iterator over a source descriptor that counts what is pulled from it"""

    def __init__(self, srcd, budget, log=None):
        self.kind = srcd['kind']
        self.items = [dec(x) for x in srcd['items']]
        self.budget = budget
        self.n = 0
        self.ended = False
        self.log = log

    def __iter__(self):
        return self

    def __next__(self):
        if self.kind == 'fin':
            if self.n >= len(self.items):
                if not self.ended:
                    self.ended = True
                    if self.log is not None:
                        self.log.append('x')
                raise StopIteration
            v = self.items[self.n]
        else:
            if self.n >= self.budget:
                raise BudgetExceeded()
            v = self.n if self.kind == 'count' else self.items[self.n % len(self.items)]
        self.n += 1
        if self.log is not None:
            self.log.append('p')
        return v

    @property
    def events(self):
        return self.n + (1 if self.ended else 0)


def call_glom(src, spec, bind_in_spec=False):
    """every real call runs under SCOPE: handed over with scope= or bound by S(..) earlier in the same spec"""
    if bind_in_spec:
        return glom(src, (S(cut=Val(SCOPE['cut']), one=Val(SCOPE['one'])), spec))
    return glom(src, spec, scope=dict(SCOPE))


def run_iter(spec, srcd, kmax, budget, want_ev=False, bind_in_spec=False):
    """glom(source, spec), then up to kmax next() calls.  Returns the observation:
    outs (abstract), ended, pulled[k] = source events after k calls, budget, exc, ev."""
    log = [] if want_ev else None
    src = Source(srcd, budget, log)
    obs = dict(outs=[], ended=False, pulled=[], budget=False, exc='', ev=log if want_ev else [])
    try:
        it = call_glom(src, spec, bind_in_spec)
    except BudgetExceeded:
        obs['budget'] = True
        return obs
    except Exception as e:
        obs['exc'] = exc_name(e)
        return obs
    if log is not None:
        log.append('b')
    obs['pulled'].append(src.events)
    for _ in range(kmax):
        try:
            v = next(it)
        except StopIteration:
            obs['ended'] = True
            if log is not None:
                log.append('f')
            obs['pulled'].append(src.events)
            break
        except BudgetExceeded:
            obs['budget'] = True
            break
        except Exception as e:
            obs['exc'] = exc_name(e)
            break
        obs['outs'].append(enc(v))
        if log is not None:
            log.append('e')
        obs['pulled'].append(src.events)
    return obs


def run_terminal(spec, srcd, budget, bind_in_spec=False):
    """glom(source, spec) for a terminal spec (first() / all()): value, source events, exc."""
    src = Source(srcd, budget)
    try:
        v = call_glom(src, spec, bind_in_spec)
    except BudgetExceeded:
        return dict(v=None, pulled=src.events, budget=True, exc='')
    except Exception as e:
        return dict(v=None, pulled=src.events, budget=False, exc=exc_name(e))
    return dict(v=v, pulled=src.events, budget=False, exc='')


# ---- Invoke ------------------------------------------------------------------------------------
def echo(*a, **kw):
    return (a, kw)


def invoke_method(spec, meth):
    def arg(v):
        return T if (v.get('k') == 'str' and v.get('s') == 'T') else dec(v)
    pos = [arg(v) for v in meth['pos']]
    kw = {dec(k): arg(v) for k, v in meth['kw']}
    if meth['m'] == 'constants':
        return spec.constants(*pos, **kw)
    if meth['m'] == 'specs':
        return spec.specs(*pos, **kw)
    if meth['m'] == 'star':
        return spec.star(args=T)
    raise ValueError(meth)
