"""Build real glom T / Path objects from the abstract operation sequences of spec/GlomT.tla,
a direct plain-Python interpreter of the same operations (second oracle), and the canonical
form of observed results (cells that did not exist before the call are unfolded)."""
import operator
from fractions import Fraction

import glom
from glom import T, S, Path, Spec

import codec


def echo(*a, **kw):
    return (a, kw)


def first(x, *rest):
    return x


def boom(*a, **kw):
    raise ValueError('boom')


def seven():
    return 7


FNS = {'echo': echo, 'first': first, 'boom': boom, 'seven': seven}

BIN = {'+': operator.add, '-': operator.sub, '*': operator.mul, '/': operator.truediv,
       '#': operator.floordiv, '%': operator.mod, ':': operator.pow, '&': operator.and_,
       '|': operator.or_, '^': operator.xor}


def slice_py(ae, heap):
    return slice(heap.val(ae['lo']), heap.val(ae['hi']), heap.val(ae['st']))


def lit_val(v, heap):
    """a literal argument; rationals stand for float literals (1.0 is VFrac(1, 1))"""
    if v['k'] == 'frac':
        return v['n'] / v['d']
    return heap.val(v)


def build_arg(ae, heap):
    a = ae['a']
    if a == 'lit':
        return lit_val(ae['v'], heap)
    if a == 't':
        return build_t(ae['ops'], heap)
    if a == 'spec':
        return Spec(build_t(ae['ops'], heap))
    if a == 'slice':
        return slice_py(ae, heap)
    if a == 'list':
        return [build_arg(x, heap) for x in ae['items']]
    if a == 'tuple':
        return tuple(build_arg(x, heap) for x in ae['items'])
    if a == 'dict':
        return {build_arg(k, heap): build_arg(v, heap) for k, v in ae['items']}
    raise ValueError(a)


def build_t(ops, heap, root=T):
    t = root
    for o in ops:
        op, arg = o['op'], o['arg']
        if op == '.':
            name = arg['s']
            t = getattr(t, '__')(name[2:]) if name.startswith('__') else getattr(t, name)
        elif op == '[':
            t = t[build_arg(arg, heap)]
        elif op == '(':
            t = t(*[build_arg(x, heap) for x in arg['args']],
                  **{k: build_arg(v, heap) for k, v in arg['kwargs']})
        elif op == '~':
            t = ~t
        elif op == '_':
            t = -t
        elif op == 'x':
            t = t.__star__()
        elif op == 'X':
            t = t.__starstar__()
        elif op == 'P':
            v = heap.val(arg)
            if isinstance(v, (glom.core.TType, Path)):     # (Path() would splice such a segment in)
                t = glom.core._t_child(t, 'P', v)
            else:
                t = Path(t, v).path_t       # a path-style ('P') step, built the public way
        else:
            t = BIN[op](t, build_arg(arg, heap))
    return t


class Failed(Exception):
    def __init__(self, idx, exc):
        self.idx, self.exc = idx, exc


def direct_arg(ae, heap, target):
    a = ae['a']
    if a == 'lit':
        return lit_val(ae['v'], heap)
    if a in ('t', 'spec'):
        return direct(ae['ops'], heap, target, target)
    if a == 'slice':
        return slice_py(ae, heap)
    if a == 'list':
        return [direct_arg(x, heap, target) for x in ae['items']]
    if a == 'tuple':
        return tuple(direct_arg(x, heap, target) for x in ae['items'])
    if a == 'dict':
        return {direct_arg(k, heap, target): direct_arg(v, heap, target) for k, v in ae['items']}


def direct(ops, heap, target, cur):
    """the same chain of operations applied directly in Python (no glom involved);
    raises Failed(position, exception) at the first operation that fails"""
    for i, o in enumerate(ops):
        op, arg = o['op'], o['arg']
        if op in ('x', 'X', 'P'):
            raise NotImplementedError
        if op == '(':
            args = [direct_arg(x, heap, target) for x in arg['args']]
            kwargs = {k: direct_arg(v, heap, target) for k, v in arg['kwargs']}
        elif op not in ('.', '~', '_'):
            a = direct_arg(arg, heap, target)
        try:
            if op == '.':
                cur = getattr(cur, arg['s'])
            elif op == '[':
                cur = cur[a]
            elif op == '(':
                cur = cur(*args, **kwargs)
            elif op == '~':
                cur = ~cur
            elif op == '_':
                cur = -cur
            else:
                cur = BIN[op](cur, a)
        except Failed:
            raise
        except Exception as e:
            raise Failed(i, e)
    return cur


def canon(heap, o, depth=0):
    """canonical abstract form of an observed object (see GlomT!Canon)"""
    if depth > 40:
        return {'k': 'opaque', 's': 'too deep'}
    if id(o) in heap.ids and not codec._is_scalar(o) and not isinstance(o, (tuple, frozenset)):
        return {'k': 'ref', 'a': heap.ids[id(o)]}
    if isinstance(o, float):
        fr = Fraction(o).limit_denominator(100000)
        if abs(float(fr) - o) <= 1e-9 * max(1.0, abs(o)):
            return {'k': 'frac', 'n': fr.numerator, 'd': fr.denominator}
        return {'k': 'opaque', 's': repr(o)}
    if isinstance(o, slice):
        return {'k': 'slice', 'lo': canon(heap, o.start), 'hi': canon(heap, o.stop), 'st': canon(heap, o.step)}
    cls = codec._cls_name(o) if not codec._is_scalar(o) else None
    if cls is None:
        return heap.project(o)
    if cls in ('dict', 'odict'):
        items = [[canon(heap, k, depth + 1), canon(heap, v, depth + 1)] for k, v in o.items()]
    elif cls == 'obj':
        items = [[canon(heap, k, depth + 1), canon(heap, v, depth + 1)] for k, v in vars(o).items()]
    elif cls in ('set', 'frozenset'):
        items = sorted((canon(heap, v, depth + 1) for v in o), key=repr)
    else:
        items = [canon(heap, v, depth + 1) for v in o]
    return {'k': 'new', 'cls': cls, 'items': items}
