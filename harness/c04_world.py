"""Concrete world for C04: exception classes matching the abstract attributes of
spec/GlomErrors.tla, realisation of contexts (enclosing constructs) as real glom specs with
transparent probes, and projection of what the real library does back into the abstract
domain (in-flight records: raised / value)."""
import copy
import itertools

import glom
from glom import (T, M, Auto, Fill, Pipe, Spec, Val, Ref, Iter, Invoke, Coalesce, Match, Switch,
                  Check, And, Or, Not, Flatten, Assign, Delete, GlomError)
from glom.grouping import Group
from glom.streaming import First

# names usable in except clauses / skip_exc, canonical order (see GlomErrors.tla, Cls.anc)
POOL = ['AttributeError', 'KeyError', 'IndexError', 'LookupError', 'MatchError', 'PathAssignError',
        'ValueError', 'TypeError', 'OSError', 'ZeroDivisionError', 'ImportError', 'GlomError',
        'Exception', 'BaseException']
POOL_PY = {'AttributeError': AttributeError, 'KeyError': KeyError, 'IndexError': IndexError,
           'LookupError': LookupError, 'MatchError': glom.MatchError,
           'PathAssignError': glom.PathAssignError, 'ValueError': ValueError, 'TypeError': TypeError,
           'OSError': OSError, 'ZeroDivisionError': ZeroDivisionError, 'ImportError': ImportError,
           'GlomError': GlomError, 'Exception': Exception, 'BaseException': BaseException}
GLOMDOC = {'PathAccessError': glom.PathAccessError, 'CoalesceError': glom.CoalesceError,
           'UnregisteredTarget': glom.UnregisteredTarget, 'BadSpec': glom.BadSpec,
           'MatchError': glom.MatchError, 'TypeMatchError': glom.TypeMatchError,
           'CheckError': glom.CheckError, 'FoldError': glom.FoldError,
           'PathAssignError': glom.PathAssignError, 'PathDeleteError': glom.PathDeleteError}
GLOMDOC_BY_TYPE = {v: k for k, v in GLOMDOC.items()}


# ---- concrete classes of the TLC catalogue ------------------------------------------------
class UAttr(Exception):
    def __init__(self, msg, extra=5):
        super().__init__(msg)
        self.extra = extra


class UKw(Exception):
    def __init__(self, *, code):
        super().__init__(code)
        self.code = code


class UDbl(Exception):
    def __init__(self, v):
        super().__init__(v * 2)


class UAr2(Exception):
    def __init__(self, a, b):
        super().__init__(a + b)


class UBad(Exception):           # test_fallback's class: raises when re-created from its args
    def __init__(self, first):
        if not first:
            1 / 0
        super().__init__(False)


class UKeySub(KeyError):
    pass


class GSub(GlomError):
    pass


class GKeep(GlomError):
    def __init__(self, a, b):
        self.a, self.b = a, b


class GInit2(GlomError):
    def __init__(self, a, b):
        super().__init__(a + b)


class GDbl(GlomError):
    def __init__(self, v):
        super().__init__(v * 2)


class GVal(GlomError, ValueError):
    pass


class GCopy(GlomError):
    def __init__(self, a, b):
        super().__init__(a + b)
        self.a, self.b = a, b

    def __copy__(self):
        return GCopy(self.a, self.b)


class BUser(BaseException):
    pass


class UEqRaise(Exception):        # naive value-based __eq__: reads an attribute of the other operand
    def __init__(self, code):
        super().__init__(code)
        self.code = code

    def __eq__(self, other):
        return self.code == other.code


class UEqAll(Exception):          # equal to everything
    def __eq__(self, other):
        return True

    __hash__ = Exception.__hash__


class Node:
    def __init__(self, raiser):
        self._raiser = raiser

    def load(self):
        self._raiser(self)


class USlots(Exception):          # slotted: instances have no __dict__
    __slots__ = ('code',)

    def __init__(self, code):
        super().__init__(code)
        self.code = code


class _EqBomb:
    def __eq__(self, other):
        raise AttributeError('no comparison')

    __hash__ = None


class UArgEq(Exception):          # args hold an unhashable object whose __eq__ raises
    pass


class UReg(Exception):            # mutable class-level state: every instance ever made is registered
    made = []

    def __init__(self, *a):
        super().__init__(*a)
        type(self).made.append(self)
        del type(self).made[:-3]


class FalsyBox:                   # holds data, but is falsy
    def __init__(self, data):
        self.data = data

    def __bool__(self):
        return False

    def __len__(self):
        return 0


import collections
NT = collections.namedtuple('NT', 'a b')


class UFalsy(Exception):          # instances are falsy
    def __len__(self):
        return 0


class GFalsy(GlomError):
    def __bool__(self):
        return False


# user subclasses of the library's own error classes, constructed the way the library does
class SubTypeMatch(glom.TypeMatchError):
    pass


class SubMatch(glom.MatchError):
    pass


class SubCoalesce(glom.CoalesceError):
    pass


class SubPAE(glom.PathAccessError):
    pass


class SubCheck(glom.CheckError):
    pass


class SubUnreg(glom.UnregisteredTarget):
    pass


class Slotted:                    # no 'keys', 'get' or 'iterate' handler
    __slots__ = ()


LIBSUB = {'SubTypeMatch', 'SubMatch', 'SubCoalesce', 'SubPAE', 'SubCheck', 'SubUnreg'}


CATALOGUE = {
    'Exception': lambda: Exception('x'), 'ValueError': lambda: ValueError(), 'KeyError': lambda: KeyError('k'), 'IndexError': lambda: IndexError('i'),
    'TypeError': lambda: TypeError('t'),
    'Os2': lambda: OSError(2, 'nf'), 'Os3': lambda: OSError(2, 'nf', 'fn'),
    'Uni5': lambda: UnicodeDecodeError('utf8', b'x', 0, 1, 'r'),
    'UAttr': lambda: UAttr('m', extra=9), 'UKw': lambda: UKw(code=4), 'UDbl': lambda: UDbl(3),
    'UAr2': lambda: UAr2(1, 2), 'UBad': lambda: UBad(True), 'UKeySub': lambda: UKeySub('k'),
    'GSub': lambda: GSub('x'), 'GKeep': lambda: GKeep(1, 2), 'GInit2': lambda: GInit2(1, 2),
    'GDbl': lambda: GDbl(3), 'GVal': lambda: GVal('v'), 'GCopy': lambda: GCopy(1, 2),
    'BKbd': lambda: KeyboardInterrupt(), 'BUser': lambda: BUser(1),
    'USlots': lambda: USlots(0), 'UArgEq': lambda: UArgEq(_EqBomb(), ''), 'UReg': lambda: UReg((), 0),
    'UEqRaise': lambda: UEqRaise(7), 'UEqAll': lambda: UEqAll('q'),
    'StopIter': lambda: StopIteration(3), 'UFalsy': lambda: UFalsy('f'), 'GFalsy': lambda: GFalsy('g'),
    'SubTypeMatch': lambda: SubTypeMatch(int, str), 'SubMatch': lambda: SubMatch('fmt {0}', 1),
    'SubCoalesce': lambda: SubCoalesce(Coalesce('a', 'b'), [], ['p']),
    'SubPAE': lambda: SubPAE(KeyError('a'), glom.Path('a'), 0),
    'SubCheck': lambda: SubCheck(['m'], Check(type=int), ['p']),
    'SubUnreg': lambda: SubUnreg('get', int, {}, ['p']),
}


def args_equal(a, b):
    try:
        return bool(a == b)
    except Exception:
        return len(a) == len(b) and all(p is q for p, q in zip(a, b))


class _Foreign:
    __slots__ = ()


def measure(e, cid, kind):
    """abstract attributes of the class of exception object e, measured directly on Python
    (never through glom): the class record of GlomErrors.tla"""
    try:
        e2 = type(e)(*e.args)
        rec = 'same' if args_equal(e2.args, e.args) else 'rewrite'
    except Exception:
        rec = 'fail'
    try:
        c = copy.copy(e)
        cp = 'ok' if (type(c) is type(e) and args_equal(c.args, e.args)) else 'rewrite'
    except Exception:
        cp = 'fail'
    anc = [cid] + [p for p in POOL if isinstance(e, POOL_PY[p]) and p != cid]
    try:
        truthy = bool(e)
    except Exception:
        truthy = True
    try:
        eq = 'always' if (e == _Foreign()) is True else 'std'
    except Exception:
        eq = 'raises'
    return {'id': cid, 'anc': anc, 'exc': isinstance(e, Exception), 'glom': isinstance(e, GlomError),
            'rec': rec, 'cp': cp, 'kind': kind, 'truthy': truthy, 'eq': eq}


# ---- sentinels and probes -------------------------------------------------------------------
class Sent:
    """sentinel value (defaults, alternatives).  Defaults of constructs are falsy-but-meaningful
    objects, alternatives are falsy at odd levels: truthiness must never decide anything"""
    def __init__(self, kind, lvl):
        self.kind, self.lvl = kind, lvl
        self.truth = not (kind == 'dflt' or (kind == 'alt' and lvl % 2 == 1))

    def __bool__(self):
        return self.truth

    def __eq__(self, other):          # hostile: equal to everything (identity is what counts)
        return True

    __hash__ = object.__hash__

    def __repr__(self):
        return '<%s@%d>' % (self.kind, self.lvl)


_never = object()       # compares unequal to every target
TOPDEFAULT = Sent('topdflt', 0)


def ident(v):
    return v


class Probe:
    """transparent spec node: evaluates its sub-spec and logs what comes out of it"""
    def __init__(self, lvl, sub, log):
        self.lvl, self.sub, self.log = lvl, sub, log

    def glomit(self, target, scope):
        try:
            ret = scope[glom.glom](target, self.sub, scope)
        except BaseException as e:
            self.log.append((self.lvl, 'raised', e))
            raise
        self.log.append((self.lvl, 'value', ret))
        return ret

    def __repr__(self):
        return 'Probe(%d, %r)' % (self.lvl, self.sub)


class NoProbe:
    def __new__(cls, lvl, sub, log):
        return sub


class PropTarget:
    def __init__(self, raiser):
        self._raiser = raiser

    @property
    def p(self):
        self._raiser(self)


class BoomTarget:
    def __init__(self, raiser):
        self._raiser = raiser

    def boom(self):
        self._raiser(self)


class Plain:
    pass


class MethTarget:
    def meth(self, v):
        return v


class RaisingIter:
    """iterator object (its own iterator) that raises at its k-th next()"""
    def __init__(self, k, raiser):
        self.k, self.i, self.raiser = k, 0, raiser

    def __iter__(self):
        return self

    def __next__(self):
        self.i += 1
        if self.i >= self.k:
            self.raiser()
        return self.i


def raising_gen(k, raiser):
    for i in range(1, k):
        yield i
    raiser()
    yield -1


# ---- leaves ----------------------------------------------------------------------------------
USER_HOWS = ['fn', 'invoke', 'tcall']
GLOM_LEAVES = {
    'PathAccessError': [lambda: ('a', {}), lambda: (T['a'], {}), lambda: (T.a, Plain()),
                        lambda: ('a.b', {'a': 1})],
    'CoalesceError': [lambda: (Coalesce('a', 'b'), {})],
    # the last alternatives first walk a value of the same type with a wildcard (an earlier,
    # unrelated glom call must not change which error a later one raises)
    'UnregisteredTarget': [lambda: ([T], Plain()), lambda: ([T], Slotted()),
                           lambda: ([T], Slotted(), lambda: glom.glom([Slotted()], '**')),
                           lambda: ([T], Slotted(), lambda: glom.glom({'a': Slotted()}, '*'))],
    'BadSpec': [lambda: (Group([{T: T}]), range(5))],
    'MatchError': [lambda: (M == _never, 1), lambda: (Match(2), 1)],
    'TypeMatchError': [lambda: (Match(str), 1)],
    'CheckError': [lambda: (Check(type=str), 1)],
    'FoldError': [lambda: (Flatten(), 2), lambda: (Flatten(), Slotted(), lambda: glom.glom([Slotted()], '**'))],
    'PathAssignError': [lambda: (Assign('a', 'b'), object())],
    'PathDeleteError': [lambda: (Delete('a'), object())],
}


class World:
    """one concrete run of one abstract case"""
    def __init__(self, ctxs, leaf, make_exc, how=0, probes=True):
        self.ctxs, self.leaf, self.n = ctxs, leaf, len(ctxs)
        self.log = []
        self.inj = None
        self.P = Probe if probes else NoProbe
        self.probes = probes
        self.sent = {}
        self.unwrap = {}
        self.make_exc = make_exc
        self.prelude = None
        inner = ctxs[-1]['k'] if ctxs else ''
        top = self.n
        if leaf['kind'] == 'glomdoc' and make_exc is None:
            alts = GLOM_LEAVES[leaf['id']]
            made = alts[how % len(alts)]()
            spec, target = made[0], made[1]
            if len(made) > 2:
                self.prelude = made[2]
            self.leafcls = GLOMDOC[leaf['id']]
            spec = self.P(self.n, spec, self.log)
        else:
            self.inj = make_exc()
            self.leafcls = type(self.inj)

            def raiser(_t=None):
                self.log.append((self.n, 'raised', self.inj))
                raise self.inj
            if inner == 'checkval':
                spec, target = Check(validate=raiser), 1
                top = self.n - 1
                spec = self.P(top, spec, self.log)
            elif inner == 'pathget':
                spec, target = 'p', PropTarget(raiser)
                top = self.n - 1
                spec = self.P(top, spec, self.log)
            elif inner == 'targ':
                v = ctxs[-1]['v']
                if v == 'idx_spec':
                    spec, target = T['data'][Spec(raiser)], {'data': {'k': 1}}
                elif v == 'idx_invoke':
                    spec, target = T['data'][Invoke(raiser)], {'data': {'k': 1}}
                else:
                    spec, target = T.meth(Spec(raiser)), MethTarget()
                top = self.n - 1
                spec = self.P(top, spec, self.log)
            elif inner == 'firstkey':
                v = ctxs[-1]['v']
                if v == 'first':
                    spec, target = First(raiser), [1, 2]
                elif v == 'iterfirst':
                    spec, target = Iter().first(raiser), [1, 2]
                else:
                    spec, target = ('items', First(raiser)), {'items': [1, 2]}
                top = self.n - 1
                spec = self.P(top, spec, self.log)
            elif inner == 'afterstar':
                v = ctxs[-1]['v']
                if v == 'call':
                    spec, target = T.__star__().load(), {'a': Node(raiser)}
                elif v == 'ss_call':
                    spec, target = T.__starstar__().load(), {'a': Node(raiser)}
                else:
                    spec, target = T.__star__()[Spec(raiser)], {'a': {'k': 1}}
                top = self.n - 1
                spec = self.P(top, spec, self.log)
            elif inner == 'geniter':
                k = {'k1': 1, 'k2': 2, 'k3': 3}[ctxs[-1]['v']]
                h = how % 4
                if h == 3:
                    spec, target = Iter().all(), raising_gen(k, raiser)
                elif h == 0:
                    spec, target = [T], raising_gen(k, raiser)
                elif h == 1:
                    spec, target = [ident], RaisingIter(k, raiser)
                else:
                    spec, target = ('rows', [T]), {'rows': raising_gen(k, raiser)}
                top = self.n - 1
                spec = self.P(top, spec, self.log)
            else:
                h = USER_HOWS[how % len(USER_HOWS)]
                if h == 'fn':
                    spec, target = raiser, 1
                elif h == 'invoke':
                    spec, target = Invoke(raiser).specs(T), 1
                else:
                    spec, target = T.boom(), BoomTarget(raiser)
        for l in range(top, 0, -1):
            spec, target = self.realise(ctxs[l - 1], l, spec, target)
            spec = self.P(l - 1, spec, self.log)
        self.spec, self.target = spec, target

    def S(self, kind, l):
        s = self.sent[(kind, l)] = Sent(kind, l)
        return s

    def skipcls(self, skip):
        return {'exact': self.leafcls, 'other': ZeroDivisionError,
                'tuple': (ZeroDivisionError, self.leafcls), 'tuple_non': (ZeroDivisionError, ImportError),
                'glomerror': GlomError, 'exception': Exception, 'keyerror': KeyError,
                'base': BaseException, 'empty': ()}[skip]

    def realise(self, c, l, child, t):
        k, v = c['k'], c['v']
        dflt = {'default': self.S('dflt', l)} if c['dflt'] == 'obj' else {}
        if k == 'pass':
            if v == 'tuple1':
                return (child, T), t
            if v == 'tuple2':
                return (T, child), t
            if v == 'dict':
                self.unwrap[l] = lambda r: r['k']
                return {'k': child}, t
            if v == 'list':
                self.unwrap[l] = lambda r: r[0]
                return [child], [t]
            if v == 'pipe':
                return Pipe(T, child), t
            if v == 'spec':
                return Spec(child), t
            if v == 'auto':
                return Auto(child), t
            if v == 'fill':
                self.unwrap[l] = lambda r: r['k']
                return Fill({'k': Auto(child)}), t
            if v == 'invoke':
                return Invoke(ident).specs(child), t
            if v == 'ref':
                return Ref('r%d' % l, child), t
            if v == 'iter':
                self.unwrap[l] = lambda r: r[0]
                return Iter(child).all(), [t]
            if v == 'and':
                return And(T, child), t
            if v == 'orlast':
                return Or(M == _never, child), t
            if v == 'match':
                return Match(Auto(child)), t
            if v == 'swval':
                return Switch([(Val(1), child)]), t
        if k == 'coal':
            subs = (child,) + ((Val(self.S('alt', l)),) if c['sib'] == 'ok' else ())
            kw = dict(dflt)
            if c['skip'] != 'default':
                kw['skip_exc'] = self.skipcls(c['skip'])
            return Coalesce(*subs, **kw), t
        if k == 'or':
            if v == 'first':
                return Or(child, Val(self.S('alt', l))), t
            return Or(M == _never, child, **dflt), t
        if k == 'and':
            return And(child, **dflt), t
        if k == 'not':
            return Not(child), t
        if k == 'matchdef':
            return Match(Auto(child), **dflt), t
        if k == 'switch':
            cases = [(child, Val(self.S('alt', l)))]
            if c['sib'] == 'ok':
                cases.append((Val(1), Val(self.sent[('alt', l)])))
            return Switch(cases, **dflt), t
        if k == 'checkspec':
            return Check(child, instance_of=object), t
        raise ValueError('unknown context %r' % (c,))

    # ---- running and projecting ---------------------------------------------------------------
    def kwargs(self, kw):
        out = {}
        d = kw['default']
        if d == 'none':
            out['default'] = None
        elif d != 'absent':
            # the default object the caller passes; "the default object itself" must come back
            if getattr(self, '_topkind', None) != d:      # (the same object again when the world is re-run)
                self._topkind = d
                self.topdefault = {'obj': lambda: Sent('topdflt', 0), 'list': lambda: [1, 2],
                                   'dictT': lambda: {'k': T['missing'], 'l': [3]}, 't': lambda: T,
                                   'ntup': lambda: NT(T['missing'], [1]), 'zero': lambda: 0,
                                   'elist': lambda: [], 'fobj': lambda: FalsyBox([T])}[d]()
            out['default'] = self.topdefault
        if kw['skip'] != 'absent':
            out['skip_exc'] = self.skipcls(kw['skip'])
        if kw['debug']:
            out['glom_debug'] = True
        return out

    def rerun(self, kw, prev):
        """evaluate the very same spec objects (same exception instance, same default object) again,
        after mutating what the first evaluation returned"""
        st, obj = prev
        if st == 'value' and obj is not self.target:     # (never the caller's own target)
            try:
                if isinstance(obj, list):
                    obj.append('mutated')
                elif isinstance(obj, dict):
                    obj['mutated'] = 1
            except Exception:
                pass
        del self.log[:]
        return self.run(kw)

    def run(self, kw):
        if self.prelude is not None:
            self.prelude()
        try:
            res = glom.glom(self.target, self.spec, **self.kwargs(kw))
        except BaseException as e:
            return ('raised', e)
        return ('value', res)

    def marker(self, v, lvl):
        """abstract marker of a value seen coming out of level lvl+1 .. n"""
        for m in range(lvl + 1, self.n + 2):
            if isinstance(v, Sent):
                return {'st': 'value', 'val': v.kind, 'at': v.lvl}
            if m in self.unwrap:
                try:
                    v = self.unwrap[m](v)
                except Exception:
                    break
        return {'st': 'value', 'val': 'tgt', 'at': 0}

    def cid(self, e):
        if e is self.inj:
            return self.leaf['id']
        if type(e) in GLOMDOC_BY_TYPE:
            return GLOMDOC_BY_TYPE[type(e)]
        return type(e).__name__

    def events(self):
        """project the probe log: one record per level n, n-1, .., 0 (first exception object seen
        is 'inj', any other exception object is 'new')"""
        evs, first = [], None
        for lvl, st, obj in self.log:
            if st == 'raised':
                if first is None:
                    first = obj
                evs.append({'lvl': lvl, 'r': {'st': 'raised', 'cid': self.cid(obj),
                                              'id': 'inj' if obj is first else 'new',
                                              'glom': isinstance(obj, GlomError)}})
            else:
                evs.append({'lvl': lvl, 'r': self.marker(obj, lvl)})
        self.first = first
        return evs

    def arrival(self):
        for lvl, st, obj in reversed(self.log):
            if lvl == 0:
                return st, obj
        return None, None

    def project_out(self, out, arr):
        """project what left glom() relative to what reached the top level"""
        st, obj = out
        if st == 'value':
            if getattr(self, 'topdefault', None) is not None and obj is self.topdefault:
                return {'st': 'value', 'val': 'topdflt', 'at': 0}
            if obj is None:
                return {'st': 'value', 'val': 'none', 'at': 0}
            return self.marker(obj, 0)
        ast, aobj = arr
        e = obj
        if ast != 'raised':
            return {'st': 'raised', 'id': 'new', 'args': 'diff', 'w': False,
                    'cls': measure(e, self.cid(e), 'user')}
        acid = self.cid(aobj)
        aid = 'inj' if aobj is self.first else 'new'
        same_args = args_equal(e.args, aobj.args)
        if e is aobj:
            cid, ident_, w = acid, aid, False
        elif type(e) is type(aobj):
            cid, ident_, w = acid, 'copy', False
        elif type(e).__name__.startswith('GlomError.wrap(') and isinstance(e, type(aobj)):
            cid, ident_, w = acid, 'wrap', True
        else:
            cid, ident_, w = self.cid(e), 'new', False
        anc = [cid] + ([acid] if isinstance(e, type(aobj)) and acid != cid else []) + \
              [p for p in POOL if isinstance(e, POOL_PY[p]) and p not in (cid, acid)]
        if acid in POOL and isinstance(e, POOL_PY[acid]) and acid not in anc:
            anc.append(acid)
        return {'st': 'raised', 'id': ident_, 'args': 'same' if same_args else 'diff', 'w': w,
                'cls': {'id': cid, 'anc': anc, 'exc': isinstance(e, Exception),
                        'glom': isinstance(e, GlomError), 'rec': 'same', 'cp': 'ok',
                        'kind': 'glomdoc' if type(e) in GLOMDOC_BY_TYPE else 'user', 'truthy': True, 'eq': 'std'}}


def proj_model(x):
    """projection of a machine record (GlomErrors.tla x) to the observable fields"""
    if x['st'] == 'value':
        return {'st': 'value', 'val': x['val'], 'at': 0 if x['val'] == 'tgt' else x['at']}
    return {'st': 'raised', 'cid': x['cls']['id'], 'id': x['id'], 'glom': x['cls']['glom']}


def proj_out_model(x, arr):
    if x['st'] == 'value':
        return proj_model(x)
    return {'st': 'raised', 'cid': x['cls']['id'], 'id': x['id'], 'glom': x['cls']['glom'],
            'args': x['args'], 'w': x['w'],
            'sub': arr['st'] == 'raised' and arr['cls']['id'] in x['cls']['anc']}


def proj_out_obs(o, arrcid):
    if o['st'] == 'value':
        return o
    return {'st': 'raised', 'cid': o['cls']['id'], 'id': o['id'], 'glom': o['cls']['glom'],
            'args': o['args'], 'w': o['w'], 'sub': arrcid in o['cls']['anc']}
