"""C15  Fold, Sum, Flatten, Merge equal plain-Python reductions and mutate no input.

spec -> code: TLC explores spec/MC_C15.tla - every target (iterable of up to MaxLen elements of
one family of shapes: numbers, sequences / strings, nested to depth 3, mappings and pair
lists, ill-typed mixes, with sharing; list / tuple / dict-keys / generator; or a non-iterable)
x every reduction spec (Fold x init x op, Sum, Flatten eager / lazy, Merge, flatten(levels),
merge()), action Evaluate taken twice on the same spec object - and checks the laws of
spec/GlomReduce.tla as invariants.  Every state after the second evaluation is replayed: the
real objects are built from the dumped heap, the real spec object is evaluated twice, and the
value / exception class / number of init() calls of both evaluations are compared with the
law's prediction; the input is snapshotted after every evaluation; the two results must share
no fresh mutable object and the first must not change during the second.
code -> spec: seeded random object graphs (longer, deeper, mixed shapes) and specs are run
through the real library and the rows are judged by TLC (spec/Trace_C15.tla).
"""
import json
import operator
import random
from collections import OrderedDict
from decimal import Decimal
from fractions import Fraction

import glom
from glom import T, Fold, Sum, Flatten, Merge, flatten, merge
from glom.reduction import Count

import codec
import vlib
import c16_dump

PROP = 'C15'


# ---- abstract spec -> real spec ----------------------------------------------------------
class Counting:
    """an init callable that counts its calls"""
    def __init__(self, factory):
        self.factory, self.calls = factory, 0

    def __call__(self):
        self.calls += 1
        return self.factory()


def _half():
    return Fraction(1, 2)


def _five():
    return 5


def _seeded():
    return [0]


def _strx():
    return 'x'


def _tup0():
    return (0,)


def _digits(a, b):
    return a * 10 + b


def _right(a, b):
    return b


def _keepfirst(d, v):
    for k, x in v.items():
        d.setdefault(k, x)


INITS = {'int': int, 'float': float, 'half': _half, 'five': _five, 'str': str, 'list': list, 'tuple': tuple,
         'dict': dict, 'odict': OrderedDict, 'seeded': _seeded, 'strx': _strx, 'tup0': _tup0, 'dec': Decimal,
         'shlist': None}                # lambda: SHARED, one list object per spec object (see RealReduction)
OPS = {'iadd': operator.iadd, 'add': operator.add, 'digits': _digits, 'right': _right,
       'update': None, 'keepfirst': _keepfirst, 'extend': 'extend', 'count': None}


class RealReduction:
    """the real spec object (or function call) for an abstract reduction spec"""

    def __init__(self, sp, counting):
        self.sp = sp
        self.counter = None
        init = sp['init']
        factory = INITS.get(init)
        if init == 'shlist':
            shared = []
            factory = lambda: shared         # noqa: E731 - the same object at every call
        if init == 'lazy':
            self.init = 'lazy'
        elif counting and sp['form'] != 'Count':
            self.counter = self.init = Counting(factory)
        else:
            self.init = factory
        sub = {'T': T, 'k': 'k', 'klist': ('k', [T])}[sp['sub']]
        form, op = sp['form'], OPS[sp['op']]
        self.spec = None
        if form == 'Fold':
            self.spec = Fold(sub, self.init) if (sp['op'] == 'iadd' and not counting) else Fold(sub, self.init, op)
        elif form == 'Sum':
            self.spec = Sum() if (sub is T and init == 'int' and not counting) else Sum(sub, self.init)
        elif form == 'Flatten':
            self.spec = Flatten() if (sub is T and init == 'list' and not counting) else Flatten(sub, self.init)
        elif form == 'Merge':
            self.spec = Merge(sub, self.init, op)
        elif form == 'Count':
            self.spec = Count() if sub is T else (sub, Count())
        elif form == 'flatten':
            self.call = lambda t: flatten(t, spec=sub, init=self.init, levels=sp['levels'])
        elif form == 'merge':
            if sub is T and init == 'dict' and not counting:
                # the convenience call with op= only (default spec and init)
                self.call = (lambda t: merge(t, op=op)) if op is not None else (lambda t: merge(t))
            else:
                self.call = lambda t: merge(t, spec=sub, init=self.init, op=op)
        else:
            raise vlib.MachineryError('unknown form %r' % (form,))
        if self.spec is not None:
            self.call = lambda t: glom.glom(t, self.spec)

    def evaluate(self, target):
        if self.counter is not None:
            self.counter.calls = 0
        res = self.call(target)
        return res


# floats whose sums are not exact: the specification keeps a sum of them as a term (GlomReduce!IsFlt),
# which is evaluated here with Python's own float addition, in the order the term says
FLOATS = {'fB': 2.0 ** 53, 'f1': 1.0, 'fnB': -(2.0 ** 53), 'f01': 0.1}


def pyval(v):
    k = v['k']
    if k == 'int':
        return v['i']
    if k == 'bool':
        return v['b']
    if k == 'frac':
        return Fraction(v['n'], v['d'])
    if k == 'dec':
        return Decimal(v['i'])
    if k == 'fn':
        return FLOATS[v['s']]
    if k == 'fsum':
        return pyval(v['l']) + pyval(v['r'])
    if k == 'fdig':
        return pyval(v['l']) * 10 + pyval(v['r'])
    raise vlib.MachineryError('not a number: %r' % (v,))


def concrete(v):
    """a predicted structural value with its float terms evaluated"""
    if v.get('k') in ('fn', 'fsum', 'fdig'):
        return deep(pyval(v))
    if 'items' in v:
        return dict(v, items=[[concrete(x) for x in it] if isinstance(it, list) else concrete(it) for it in v['items']])
    return v


# ---- structural projection -----------------------------------------------------------------
def deep(o, depth=0):
    if depth > 16:
        return {'k': 'opaque', 's': 'deep'}
    if o is None:
        return {'k': 'none'}
    if isinstance(o, bool):
        return {'k': 'bool', 'b': o}
    if isinstance(o, int):
        return {'k': 'int', 'i': o} if abs(o) < 2 ** 31 else {'k': 'opaque', 's': 'bigint'}
    if isinstance(o, Decimal):
        return {'k': 'dec', 'i': int(o)} if o == int(o) and abs(o) < 2 ** 31 else {'k': 'opaque', 's': repr(o)}
    if isinstance(o, (float, Fraction)):
        fr = Fraction(o)
        if fr.denominator in (1, 2) and abs(fr.numerator) < 2 ** 31:
            return {'k': 'frac', 'n': fr.numerator, 'd': fr.denominator}
        return {'k': 'float', 'r': repr(o)}
    if isinstance(o, str):
        return {'k': 'str', 's': o}
    if isinstance(o, OrderedDict):
        return {'k': 'odict', 'items': [[deep(k, depth + 1), deep(v, depth + 1)] for k, v in o.items()]}
    if isinstance(o, dict):
        return {'k': 'dict', 'items': [[deep(k, depth + 1), deep(v, depth + 1)] for k, v in o.items()]}
    if isinstance(o, list):
        return {'k': 'list', 'items': [deep(v, depth + 1) for v in o]}
    if isinstance(o, tuple):
        return {'k': 'tuple', 'items': [deep(v, depth + 1) for v in o]}
    if isinstance(o, codec.Obj):
        return {'k': 'obj'}
    return {'k': 'opaque', 's': type(o).__name__}


def mutables(o, acc=None, seen=None):
    """ids of the lists / dicts reachable from a value (through tuples too)"""
    acc = set() if acc is None else acc
    seen = set() if seen is None else seen
    if id(o) in seen:
        return acc
    if isinstance(o, (list, dict)):
        seen.add(id(o))
        acc.add(id(o))
        for v in (o.values() if isinstance(o, dict) else o):
            mutables(v, acc, seen)
    elif isinstance(o, tuple):
        seen.add(id(o))
        for v in o:
            mutables(v, acc, seen)
    return acc


def _caller_changes(res, input_ids):
    """the caller may do what it likes with a result it got: change it (if it is a new mutable object)"""
    if id(res) in input_ids:
        return
    if isinstance(res, list):
        res.append('changed by the caller')
    elif isinstance(res, dict):
        res['changed by the caller'] = 0


def run_case(heap0, root, wrap, sp, counting, third=False):
    """Evaluate the real spec object twice (the caller changes the first result in between; with
    third=True a third time, on an equal but different target); the counting variant builds the input
    from falsy list / tuple / dict / object subclasses that override __getitem__.
    -> (obs list, frame ok, independent ok, detail)"""
    classes = codec.FALSY_LOGGING if counting else codec.PLAIN
    del codec.ACCESS_LOG[:]
    heap = codec.Heap(heap0, classes, FLOATS)
    base = heap.snapshot()
    rr = RealReduction(sp, counting)
    rootobj = heap.val(root)
    input_ids = set(heap.ids)
    shared = sp['init'] == 'shlist'
    obs, results, after = [], [], []
    frame, indep, detail = True, True, ''
    for e in (1, 2, 3):
        if e == 3:
            if not third or shared:
                break
            heap = codec.Heap(heap0, classes, FLOATS)       # an equal, different target
            rootobj = heap.val(root)
            input_ids |= set(heap.ids)
        target = iter(rootobj) if wrap == 'gen' else rootobj
        o = {'ok': True, 'v': {'k': 'none'}, 'exc': '', 'inits': -1}
        res = None
        try:
            res = rr.evaluate(target)
            if sp['lazy']:
                if isinstance(res, (list, tuple, dict, str)):
                    detail = 'lazy Flatten returned a %s' % type(res).__name__
                res = list(res)
            if res is target and wrap == 'gen':     # flatten(levels=0) hands the iterator back
                res = rootobj
            o['v'] = deep(res)
        except Exception as exc:        # noqa: BLE001 - the class is the observation
            o.update(ok=False, exc=codec.exc_class_name(exc))
            res = None
        if counting:
            # lazy: nothing to call; Count(): its init is the builtin int, which cannot be counted (-1)
            o['inits'] = rr.counter.calls if rr.counter is not None else (0 if sp['init'] == 'lazy' else -1)
        if sp['form'] == 'flatten' and sp['levels'] == 0 and o['ok'] and res is not rootobj:
            detail = 'flatten(levels=0) did not return the target itself'
        obs.append(o)
        results.append(res)
        if heap.snapshot() != base:
            frame = False
            detail = detail or 'input changed during evaluation %d' % e
        if o['ok'] and not shared and not (sp['form'] == 'flatten' and sp['levels'] == 0):
            _caller_changes(res, input_ids)
        after.append(deep(res) if o['ok'] else None)
    del codec.ACCESS_LOG[:]
    if obs[0]['ok'] and obs[1]['ok'] and not shared:
        if (mutables(results[0]) - input_ids) & (mutables(results[1]) - input_ids):
            indep = False
            detail = detail or 'the two results share a fresh mutable object'
        if deep(results[0]) != after[0]:
            indep = False
            detail = detail or 'the first result changed during a later evaluation'
    return obs, frame, indep, detail


def compare(pred, obs, counting):
    for e in range(len(obs)):
        p, o = pred[min(e, 1) if e < 2 else 0], obs[e]    # a third evaluation is a first one on another target
        if p['ok'] != o['ok'] or p['exc'] != o['exc']:
            return 'evaluation %d: predicted %s observed %s' % (
                e + 1, 'ok' if p['ok'] else p['exc'], 'ok' if o['ok'] else o['exc'])
        if p['ok'] and concrete(p['v']) != o['v']:
            return 'evaluation %d: value predicted %s observed %s' % (e + 1, json.dumps(concrete(p['v'])), json.dumps(o['v']))
        if counting and 0 <= o['inits'] < p['inits']:
            return 'evaluation %d: init() called %d time(s) during the evaluation, the law requires %d' % (e + 1, o['inits'], p['inits'])
    return None


def worker(states):
    out = dict(cases=0, calls=0, agree=0, nontrivial=0, bad=[], samples=[])
    for st in states:
        if len(st['pred']) != 2:
            continue
        out['cases'] += 1
        sp, heap0 = st['sp'], st['heap0']
        nelem = len(heap0[st['root']['a'] - 1]['items']) if st['root']['k'] == 'ref' else 0
        if nelem >= 1:
            out['nontrivial'] += 1
        ok = True
        for counting in (False, True):
            obs, frame, indep, detail = run_case(heap0, st['root'], st['wrap'], sp, counting, third=not counting)
            out['calls'] += len(obs)
            why = compare(st['pred'], obs, counting)
            if why is None and not frame:
                why = 'input mutated: ' + detail
            if why is None and not indep:
                why = 'evaluations not independent: ' + detail
            if why is None and detail:
                why = detail
            if why:
                ok = False
                out['bad'].append(dict(why='%s [%s init]' % (why, 'counting' if counting else 'plain'),
                                       case=dict(heap0=heap0, root=st['root'], wrap=st['wrap'], sp=sp,
                                                 pred=st['pred'], obs=obs, counting=counting)))
            else:
                out['agree'] += len(obs)
        if ok and len(out['samples']) < 1 and nelem >= 2 and sp['form'] in ('Fold', 'flatten', 'Merge'):
            out['samples'].append(dict(heap0=heap0, root=st['root'], wrap=st['wrap'], sp=sp, pred=st['pred']))
    return out


# ---- code -> spec: random inputs -------------------------------------------------------------
STRS = ['', 'uv', 's', 'a', 'b']


def rand_elem(rng, cells, depth, flavour):
    """append cells for a random element, return its value"""
    r = rng.random()
    if flavour == 'nums' or (depth >= 3) or r < 0.15:
        c = rng.random()
        if c < 0.6 or flavour == 'nums':
            if rng.random() < 0.08:
                return {'k': 'bool', 'b': False}
            return {'k': 'int', 'i': rng.randint(0, 6)} if rng.random() < 0.7 else \
                {'k': 'frac', 'n': rng.choice([1, 3, 5]), 'd': 2}
        if c < 0.85:
            return {'k': 'str', 's': rng.choice(STRS)}
        return {'k': 'none'}
    if flavour == 'dicts' and r < 0.8:
        if rng.random() < 0.6:
            keys = rng.sample(['a', 'b', 'c', 'x'], rng.randint(0, 3))
            items = [[{'k': 'str', 's': k}, rand_elem(rng, cells, depth + 2, 'nums')] for k in keys]
            cells.append({'cls': rng.choice(['dict', 'dict', 'odict']), 'items': items})
        else:
            pairs = []
            for _ in range(rng.randint(0, 3)):
                if rng.random() < 0.85:
                    kv = [{'k': 'str', 's': rng.choice(['a', 'b', 'c'])}, {'k': 'int', 'i': rng.randint(0, 9)}]
                    if rng.random() < 0.1:
                        kv = kv[:1]
                    cells.append({'cls': rng.choice(['tuple', 'list']), 'items': kv})
                    pairs.append({'k': 'ref', 'a': len(cells)})
                else:
                    pairs.append({'k': 'str', 's': rng.choice(['uv', 's'])})
            cells.append({'cls': rng.choice(['list', 'tuple']) if pairs else 'list', 'items': pairs})
        return {'k': 'ref', 'a': len(cells)}
    items = [rand_elem(rng, cells, depth + 1, flavour) for _ in range(rng.randint(0, 3))]
    # () is a singleton in CPython: two empty tuple cells would be one object, so empty means list
    cells.append({'cls': rng.choice(['list', 'list', 'tuple']) if items else 'list', 'items': items})
    return {'k': 'ref', 'a': len(cells)}


def shared_ok(cells, root, sub):
    """a shared init object is exercised where the fold cannot fail half-way (mirrors MC_C15!SharedOk)"""
    if sub != 'T' or root['k'] != 'ref':
        return False
    c = cells[root['a'] - 1]
    if c['cls'] not in ('list', 'tuple', 'dict', 'odict'):
        return False
    elems = [it[0] for it in c['items']] if c['cls'] in ('dict', 'odict') else c['items']
    return all(e['k'] == 'str' or (e['k'] == 'ref' and cells[e['a'] - 1]['cls'] in ('list', 'tuple', 'dict', 'odict'))
               for e in elems)


def rand_row(rng):
    cells = []
    flavour = rng.choice(['nums', 'seqs', 'seqs', 'dicts', 'mixed'])
    n = rng.randint(0, 6)
    elems = []
    for _ in range(n):
        if elems and rng.random() < 0.15:
            elems.append(rng.choice(elems))             # sharing
        else:
            elems.append(rand_elem(rng, cells, 1, rng.choice(['nums', 'seqs', 'dicts']) if flavour == 'mixed' else flavour))
    wrap = 'plain'
    r = rng.random()
    if r < 0.06:
        root = rng.choice([{'k': 'int', 'i': 5}, {'k': 'none'}, {'k': 'str', 's': 'uv'}])
    else:
        hashable = all(e['k'] != 'ref' for e in elems) and len({json.dumps(e) for e in elems}) == len(elems) \
            and not any(e['k'] in ('frac', 'bool') for e in elems)
        if hashable and r < 0.2:
            cells.append({'cls': 'dict', 'items': [[e, {'k': 'none'}] for e in elems]})
        else:
            cells.append({'cls': rng.choice(['list', 'list', 'tuple']) if elems else 'list', 'items': elems})
            if cells[-1]['cls'] == 'list' and rng.random() < 0.25:
                wrap = 'gen'
        root = {'k': 'ref', 'a': len(cells)}
    sub = 'T'
    if wrap == 'plain' and rng.random() < 0.3:
        cells.append({'cls': 'dict', 'items': [[{'k': 'str', 's': 'k'}, root]]})
        root = {'k': 'ref', 'a': len(cells)}
        sub = rng.choice(['k', 'klist'])
    form = rng.choice(['Fold', 'Fold', 'Sum', 'Flatten', 'Flatten', 'Merge', 'flatten', 'flatten', 'merge', 'Count'])
    sp = dict(form=form, sub=sub, init='int', op='iadd', levels=1, lazy=False)
    if form == 'Fold':
        sp['init'] = rng.choice(list(INITS))
        if sp['init'] == 'shlist' and not shared_ok(cells, root, sub):
            sp['init'] = 'list'
        sp['op'] = rng.choice(['iadd', 'iadd', 'add', 'right'] + (['digits'] if sp['init'] in ('int', 'float', 'half', 'five', 'dec') else []))
        if sp['init'] == 'shlist':
            sp['op'] = 'iadd'            # the shared list is extended in place
    elif form == 'Sum':
        sp['init'] = rng.choice(['int', 'float', 'half', 'five', 'strx', 'dec'])
    elif form == 'Flatten':
        sp['init'] = rng.choice(['list', 'list', 'tuple', 'int', 'str', 'seeded', 'strx', 'tup0', 'lazy'])
    elif form == 'Merge':
        sp['init'], sp['op'] = rng.choice([('dict', 'update'), ('odict', 'update'), ('dict', 'keepfirst'), ('list', 'extend')])
    elif form == 'flatten':
        sp['init'] = rng.choice(['list', 'list', 'tuple', 'int', 'tup0', 'lazy'])
        sp['levels'] = rng.choice([1, 1, 2, 2, 3, 4] + ([0] if sub == 'T' else []))
        if sp['levels'] == 0 and sp['init'] == 'lazy':
            sp['init'] = 'list'
    elif form == 'Count':
        sp['op'] = 'count'
    else:
        sp['init'], sp['op'] = rng.choice([('dict', 'update'), ('odict', 'update')])
    sp['lazy'] = sp['init'] == 'lazy'
    return dict(heap0=cells, root=root, wrap=wrap, sp=sp)


def record(check, n, seed):
    rng = random.Random(seed)
    rows = []
    for _ in range(n):
        row = rand_row(rng)
        counting = rng.random() < 0.5
        obs, frame, indep, detail = run_case(row['heap0'], row['root'], row['wrap'], row['sp'], counting)
        row.update(obs=obs, frame=frame and not detail.startswith('flatten(levels=0)'), indep=indep, detail=detail)
        rows.append(row)
    # self-test of the binding: a recorded row with a corrupted observation must be rejected
    donor = next(r for r in rows if r['obs'][0]['ok'] and r['obs'][0]['v']['k'] == 'list' and r['obs'][0]['v']['items'])
    corrupt = json.loads(json.dumps(donor))
    corrupt['obs'][1]['v']['items'] = corrupt['obs'][1]['v']['items'][::-1] + [{'k': 'int', 'i': 99}]
    corrupt['corrupted'] = True
    rows.append(corrupt)
    rejects = vlib.validate_rows(check, 'Trace_C15', rows, 'random-graphs', chunk=max(500, n // 6 + 1), workers_parallel=6)
    caught, drift = False, 0
    for row, rej in rejects:
        if row.get('corrupted'):
            caught = True
        elif rej['clause'] == 'drift':
            drift += 1
        else:
            check.violation(dict(row=row, clause=rej['clause']),
                            'recorded execution rejected by the specification: clause %s (%s)' % (rej['clause'], row['detail']),
                            matcher=match_finding)
    if not caught:
        raise vlib.MachineryError('the corrupted recorded row was not rejected by Trace_C15')
    check.extra['corrupted_row_rejected'] = True
    check.extra['recorded_rows'] = len(rows) - 1
    check.extra['recorded_drift'] = drift
    for row in rows[:2]:
        check.sample(dict(kind='recorded', **row), limit=6)


def match_finding(f, case):
    return False


# ---- driver ------------------------------------------------------------------------------
def tla_set(xs):
    return '{' + ', '.join(json.dumps(x) for x in xs) + '}'


FAMILIES = ['nums', 'seqs', 'deep', 'dicts', 'bad', 'keys']
FORMS = ['Fold', 'Sum', 'Flatten', 'Merge', 'flatten', 'merge', 'Count']


def consts(**kw):
    base = dict(MaxLen=2, Families=tla_set(FAMILIES), Outers=tla_set(['list', 'tuple', 'gen', 'dict']),
                Forms=tla_set(FORMS), Subs=tla_set(['T']), Levels='{0, 1, 2, 3}', RMutant='"none"')
    base.update(kw)
    return base


UNIVERSES = {
    'quick': [
        ('all', consts(MaxLen=2, Outers=tla_set(['list', 'dict']))),
        ('generators', consts(MaxLen=2, Outers=tla_set(['gen']), Families=tla_set(['seqs', 'bad']))),
        ('floats', consts(MaxLen=3, Outers=tla_set(['list']), Families=tla_set(['floats']), Forms=tla_set(['Sum', 'Fold']))),
        ('tuple+subspec', consts(MaxLen=1, Outers=tla_set(['tuple']), Subs=tla_set(['k', 'klist']),
                                 Families=tla_set(['nums', 'seqs', 'dicts', 'bad']))),
    ],
    'thorough': [
        ('all', consts(MaxLen=3, Families=tla_set(['nums', 'seqs', 'dicts', 'bad', 'keys']),
                       Outers=tla_set(['list', 'gen', 'dict']))),
        ('floats', consts(MaxLen=3, Outers=tla_set(['list', 'gen']), Families=tla_set(['floats', 'nums']),
                          Forms=tla_set(['Sum', 'Fold', 'Flatten']))),
        ('deep', consts(MaxLen=2, Families=tla_set(['deep']), Outers=tla_set(['list', 'tuple', 'gen']))),
        ('tuple+subspec', consts(MaxLen=2, Outers=tla_set(['tuple', 'list']), Subs=tla_set(['k', 'klist']))),
    ],
}
MUT_UNIVERSE = consts(MaxLen=2, Families=tla_set(['seqs', 'dicts', 'deep']), Outers=tla_set(['list']),
                      Forms=tla_set(['Fold', 'Flatten', 'Merge', 'flatten', 'Count']), Levels='{1, 2}')
MUT_KEYS_UNIVERSE = consts(MaxLen=2, Families=tla_set(['dicts']), Outers=tla_set(['list']), Forms=tla_set(['Merge']),
                           Levels='{1}')
# spec mutant -> (cfg whose invariants must be violated, the law expected to fail first)
MUTANTS = [('init_once', 'MC_C15_mut_indep', 'InvIndependent'),
           ('first_as_init', 'MC_C15_mut_frame', None),
           ('merge_into_first', 'MC_C15_mut_frame', None),
           ('lazy_extra_level', 'MC_C15_mut_lazy', 'InvLazyEager'),
           ('init_once', 'MC_C15', None),
           ('count_bad_init', 'MC_C15', None),
           ('shared_copied', 'MC_C15', 'InvValue'),
           ('idkeys', 'MC_C15', 'InvValue'),
           ('sub_in_try', 'MC_C15', 'InvValue')]
MUT_SUB_UNIVERSE = consts(MaxLen=1, Families=tla_set(['nums']), Outers=tla_set(['list']), Subs=tla_set(['klist']),
                          Forms=tla_set(['Sum', 'Count']), Levels='{1}')


def main(tier, seed):
    check = vlib.Check(PROP, tier, seed)
    jobs = c16_dump.Jobs()
    try:
        todo = [dict(label=label, module='MC_C15', cfg='MC_C15', constants=cs, dump=True, workers=8, heap='6g')
                for label, cs in UNIVERSES[tier]]
        muts = MUTANTS if tier == 'thorough' else MUTANTS[:2] + MUTANTS[-1:]
        todo += [dict(label='mutant %s' % m, module='MC_C15', cfg=cfg,
                      constants=dict({'sub_in_try': MUT_SUB_UNIVERSE, 'idkeys': MUT_KEYS_UNIVERSE}.get(m, MUT_UNIVERSE),
                                     RMutant='"%s"' % m),
                      expect=law, mutant=True, workers=2, heap='2g') for m, cfg, law in muts]
        for job, res, path in jobs.run(todo, parallel=4):
            label = job['label']
            if job.get('mutant'):
                if res['violated'] is None or (job['expect'] and res['violated'] != job['expect']):
                    raise vlib.MachineryError('%s: expected TLC to report %s violated, got %r\n%s'
                                              % (label, job['expect'] or 'a law', res['violated'], '\n'.join(res['out'][-15:])))
                check.extra.setdefault('spec_mutants', []).append(dict(run=label, cfg=job['cfg'], violated=res['violated']))
                continue
            vlib.tlc_must_pass(res, 'MC_C15 ' + label)
            check.add_tlc(res, 'MC_C15 %s' % label)
            ncases = 0
            for r in c16_dump.map_dump(path, worker, keep=('heap0', 'root', 'wrap', 'sp', 'pred')):
                ncases += r['cases']
                check.cov['evaluations'] += r['calls']
                check.cov['distinct_nontrivial'] += r['nontrivial']
                check.validated(r['agree'])
                check.extra['cases'] = check.extra.get('cases', 0) + r['cases']
                for s in r['samples']:
                    check.sample(dict(universe=label, **s))
                for b in r['bad']:
                    check.violation(b['case'], b['why'], matcher=match_finding)
            if ncases == 0:         # vacuity: Evaluate must have been taken twice somewhere
                raise vlib.MachineryError('universe %s has no state after the second evaluation' % label)
    finally:
        jobs.close()
    record(check, {'quick': 5000, 'thorough': 120000}[tier], seed)
    check.extra['universes'] = {label: cs for label, cs in UNIVERSES[tier]}
    check.assumptions += [
        'numbers are ints, bools, Decimal and exact multiples of 1/2 (float / Fraction), plus four binary floats with inexact sums '
        'whose additions are evaluated by Python itself in the order the specification fixes; strings are "", "uv" and one-character strings',
        'Count() outside Group mode and decimal.Decimal as init are included; ops: operator.iadd, operator.add, lambda a, b: a * 10 + b, lambda a, b: b; Merge ops: default "update", '
        '"extend" (by name, on a list), a first-writer-wins callable; custom inits (non-empty starts): lambda: 5, lambda: [0], '
        "lambda: 'x', lambda: (0,), lambda: Fraction(1, 2)",
        'flatten(levels=0) only without a spec (documented domain is positive levels; with spec=... the code returns '
        'the un-specced target), negative levels not exercised; the subspec is T, one key lookup, or a key lookup '
        "followed by a list spec ('k', [T]) that fails with UnregisteredTarget on a non-iterable value",
        'exceptions are compared by class (TypeError / ValueError / AttributeError / FoldError), never by message',
        'laziness itself (nothing pulled before consumption) is the subject of C17; here a lazy result is judged by list(result)',
        'sets and user-defined iterables / registered types are outside the universe',
        'TLC, the Json community module and the codec are trusted']
    return check.finish(rule='TLC enumerates every (target, reduction spec) within the constants and evaluates the spec '
                        'object twice; every case is replayed with plain and with call-counting init callables; '
                        'evaluations = glom evaluations judged; non-trivial = case whose iterable has >= 1 element; '
                        'distinct by TLC state',
                        exhaustive=True)


def replay(path):
    with open(path) as f:
        v = json.load(f)
    case = v['case'].get('row') or v['case']
    status = 0
    for counting in (False, True):
        obs, frame, indep, detail = run_case(case['heap0'], case['root'], case['wrap'], case['sp'], counting)
        print('%s init: spec %s' % ('counting' if counting else 'plain', json.dumps(case['sp'])))
        print('   observed  %s' % json.dumps(obs))
        print('   frame=%s independent=%s %s' % (frame, indep, detail))
        if 'pred' in case:
            print('   predicted %s' % json.dumps(case['pred']))
            if compare(case['pred'], obs, counting) or not frame or not indep or detail:
                status = 1
    return status
