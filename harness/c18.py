"""C18  T and Path are faithful values: repr, pickle and slicing round-trip.

spec -> code: spec/MC_C18.tla enumerates (a) every index / slice triple / concatenation /
startswith / len question over paths of up to MaxN distinguishable steps, with the answer given
by the sequence semantics of spec/GlomRepr.tla (Python tuple semantics), and (b) every T / Path
expression of up to MaxOps recorded operations over the literal alphabet, rooted at T, S and A,
with the outcome GlomT predicts on four probe targets.  The harness realises each case with real
Path / T objects and checks: sequence operations agree with the prediction; eval(repr(x)) and
pickle round-trip record the same operations, have the same repr and evaluate to the predicted
outcome on every probe target; glom(t, Path(p, q)) is glom(glom(t, p), q).
code -> spec: seeded random paths (up to 9 steps, mixed kinds) and random slices / indices are
recorded from the real Path objects and validated by TLC (spec/Trace_C18.tla) against the same
sequence operators; random longer expressions are round-tripped and their evaluation validated by
spec/Trace_C02.tla.
"""
import copy
import json
import pickle
import random

import glom
from glom import T, S, A, Path, Spec

import codec
import tspec
import vlib
from c02 import observe

PROP = 'C18'

PROBE = [
    {'cls': 'obj', 'items': [[{'k': 'str', 's': 'n'}, {'k': 'int', 'i': 3}], [{'k': 'str', 's': 'l'}, {'k': 'ref', 'a': 2}],
                             [{'k': 'str', 's': 'echo'}, {'k': 'fn', 's': 'echo'}], [{'k': 'str', 's': '_x'}, {'k': 'str', 's': 's'}]]},
    {'cls': 'list', 'items': [{'k': 'int', 'i': 1}, {'k': 'int', 'i': 2}, {'k': 'ref', 'a': 3}]},
    {'cls': 'dict', 'items': [[{'k': 'str', 's': 'k'}, {'k': 'int', 'i': 5}], [{'k': 'str', 's': 'a.b'}, {'k': 'ref', 'a': 1}],
                              [{'k': 'int', 'i': 0}, {'k': 'str', 's': 'uv'}], [{'k': 'str', 's': "it's"}, {'k': 'none'}]]}]
PROBE_TARGETS = [{'k': 'ref', 'a': 1}, {'k': 'ref', 'a': 2}, {'k': 'ref', 'a': 3}, {'k': 'int', 'i': 6}]
FNS = dict(tspec.FNS, len=len)
ROOTS = {'T': T, 'S': S, 'A': A}
NS = {'T': T, 'S': S, 'A': A, 'Path': Path, 'Spec': Spec}


class FHeap(codec.Heap):
    """literal floats for 'frac' values"""
    def val(self, v):
        if v['k'] == 'frac':
            return v['n'] / v['d']
        return codec.Heap.val(self, v)


def get_ops(x):
    return x.path_t.__ops__ if isinstance(x, Path) else x.__ops__


def ops_equal(a, b):
    """structural equality of recorded operations (T objects nested in arguments included)"""
    if isinstance(a, glom.core.TType) or isinstance(b, glom.core.TType):
        if not (isinstance(a, glom.core.TType) and isinstance(b, glom.core.TType)):
            return False
        oa, ob = a.__ops__, b.__ops__
        return oa[0] is ob[0] and len(oa) == len(ob) and all(ops_equal(x, y) for x, y in zip(oa[1:], ob[1:]))
    if isinstance(a, Spec) or isinstance(b, Spec):
        return isinstance(a, Spec) and isinstance(b, Spec) and ops_equal(a.spec, b.spec)
    if type(a) is not type(b):
        return False
    if isinstance(a, (tuple, list)):
        return len(a) == len(b) and all(ops_equal(x, y) for x, y in zip(a, b))
    if isinstance(a, dict):
        return list(a) == list(b) and all(ops_equal(a[k], b[k]) for k in a)
    return a == b


def realise_step(j):
    """abstract step number -> concrete path part"""
    return KINDS[j]


# (step 5 is an item step whose literal is None, step 3 a path part that is None: a step may carry any
# literal, also the one the wildcard steps use as their placeholder argument)
KINDS = {1: 'a', 2: T.b, 3: None, 4: (1, 2), 5: T[None], 6: 'e.f', 7: T[1], 8: 0, 9: T.h,
         11: 'x', 12: T['y'], 13: T['c'], 99: 'other'}
# what items() must list for each step, written down independently of the library
EXPECT = {1: ('P', 'a'), 2: ('.', 'b'), 3: ('P', None), 4: ('P', (1, 2)), 5: ('[', None), 6: ('P', 'e.f'), 7: ('[', 1),
          8: ('P', 0), 9: ('.', 'h'), 11: ('P', 'x'), 12: ('[', 'y'), 13: ('[', 'c'), 99: ('P', 'other')}


def mk_path(steps):
    return Path(*[realise_step(j) for j in steps])


def items_of(steps):
    return tuple(EXPECT[j] for j in steps)


def nested_target(steps):
    """a target on which the realised steps succeed, ending in a unique leaf object"""
    leaf = ['leaf']
    cur = leaf
    for j in reversed(steps):
        part = realise_step(j)
        if isinstance(part, glom.core.TType):
            op, arg = part.__ops__[1], part.__ops__[2]
            if op == '.':
                o = codec.Obj()
                setattr(o, arg, cur)
                cur = o
            else:
                cur = {arg: cur} if not isinstance(arg, int) else [None] * arg + [cur]
        else:
            cur = {part: cur} if not isinstance(part, int) else [None] * part + [cur]
    return cur, leaf


def in_range(n, sl):
    return all(sl[f]['k'] == 'none' or -n <= sl[f]['i'] <= n for f in ('lo', 'hi'))


def safe_repr(x):
    try:
        return repr(x)
    except Exception as e:
        try:
            return '<repr failed: %s; ops=%r>' % (type(e).__name__, getattr(x, 'path_t', x).__ops__[1:])
        except Exception:
            return '<repr failed: %s; object of %s>' % (type(e).__name__, type(x).__name__)


def roundtrip(r):
    """a Path produced by a sequence operation is itself a faithful value"""
    for proto in range(pickle.HIGHEST_PROTOCOL + 1):          # every protocol, and copy / deepcopy
        try:
            z = pickle.loads(pickle.dumps(r, protocol=proto))
        except Exception as e:
            return 'pickling the resulting path %s with protocol %d fails with %s' % (safe_repr(r), proto, type(e).__name__)
        if z.items() != r.items() or get_ops(z)[0] is not get_ops(r)[0]:
            return 'pickle round trip (protocol %d) changes the resulting path %s into %s' % (proto, safe_repr(r), safe_repr(z))
    try:
        y = eval(repr(r), dict(NS))
    except Exception as e:
        return 'eval(repr()) of the resulting path %s fails with %s' % (safe_repr(r), type(e).__name__)
    if not ops_equal(tuple(get_ops(y)), tuple(get_ops(r))):
        return 'eval(repr()) of the resulting path %s gives %s' % (safe_repr(r), safe_repr(y))
    return None


def check_seq(st):
    w = check_seq_(st)
    return w


def check_seq_(st):
    n, oper, pred = st['n'], st['oper'], st['pred']
    steps = list(range(1, n + 1))
    p = mk_path(steps)
    o = oper['o']
    if o == 'len':
        if len(p) != n:
            return 'len(p) = %d for %d steps' % (len(p), n)
        if p.items() != tuple(x for j in steps for x in items_of([j])):
            return 'items() differs from the tuple of steps'
        if p.values() != tuple(v for _, v in items_of(steps)):
            return 'values() differs from the step arguments'
        # startswith with a string: the string stands for the single plain step ('P', text)
        if p.startswith('a') != (n >= 1) or p.startswith('b') or Path(T.a, 'x').startswith('a') or Path(T['a']).startswith('a') \
                or Path(glom.S.a).startswith('a') or not Path('a', T.b).startswith('a'):
            return 'startswith(<text>) differs from the comparison with the plain step of that text'
        # wildcard steps are steps like any other (their argument is None)
        wp = Path(p, T.__star__(), 'w', T.__starstar__())
        tail = (('x', None), ('P', 'w'), ('X', None))
        if len(wp) != n + 3 or wp.items() != items_of(steps) + tail or wp.values() != p.values() + (None, 'w', None):
            return 'len / items() / values() of a path with wildcard steps differ from its tuple of steps: %r' % (wp,)
        if not wp.startswith(p) or wp[n:].items() != tail or (n and wp[n - 1:n + 1].items() != items_of(steps[-1:]) + tail[:1]):
            return 'startswith / slicing of a path with wildcard steps differ from its tuple of steps: %r' % (wp,)
        if not (p == mk_path(steps)) or (n and p == mk_path(steps[:-1])) or p != mk_path(steps):
            return 'equality of equal / different paths wrong'
        return None
    if o == 'index':
        try:
            r = p[oper['i']]
        except IndexError:
            return None if not pred['ok'] else 'p[%d] raised IndexError, expected %s' % (oper['i'], pred['steps'])
        if not pred['ok']:
            return 'p[%d] on %d steps returned %r, expected IndexError (like a tuple)' % (oper['i'], n, r)
        if r.items() != items_of(pred['steps']):
            return 'p[%d] = %r, expected steps %s' % (oper['i'], r, pred['steps'])
        return roundtrip(r)
    if o == 'slice':
        sl = oper['sl']
        s = slice(*[None if sl[f]['k'] == 'none' else sl[f]['i'] for f in ('lo', 'hi', 'st')])
        if not in_range(n, sl):
            return 'SKIP'      # the property speaks about in-range slicing only
        r = p[s]
        exp = items_of(pred['steps'])
        if r.items() != exp or len(r) != len(pred['steps']):
            return 'p[%s:%s:%s] on %d steps = %s, expected steps %s' % (s.start, s.stop, s.step, n, safe_repr(r), pred['steps'])
        return roundtrip(r)
    if o == 'concat':
        q = mk_path([10 + j for j in range(1, oper['m'] + 1)])
        r = Path(p, q)
        if r.items() != items_of(pred['steps']) or r.values() != p.values() + q.values():
            return 'Path(p, q) = %r, expected steps %s' % (r, pred['steps'])
        if not r.startswith(p):
            return 'Path(p, q).startswith(p) is False'
        t, leaf = nested_target(pred['steps'])
        one = glom.glom(t, r)
        two = glom.glom(glom.glom(t, p), q)
        if one is not leaf or two is not leaf:
            return 'glom(t, Path(p, q)) is not glom(glom(t, p), q) for %r' % (r,)
        return roundtrip(r)
    if o == 'startswith':
        q = mk_path(oper['q'])
        got = p.startswith(q)
        if bool(got) != pred['ok']:
            return '%r.startswith(%r) = %r, expected %r' % (p, q, got, pred['ok'])
        return None
    raise vlib.MachineryError('unknown seq operation %r' % (o,))


def build_expr(root, ops, heap):
    t = tspec.build_t(ops, heap, ROOTS[root])
    if any(o['op'] == 'P' for o in ops):
        return Path(t)
    return t


def check_expr(st, out):
    root, ops, pred = st['root'], st['ops'], st['pred']
    heap = FHeap(PROBE, fns=FNS)
    try:
        x = build_expr(root, ops, heap)
    except (TypeError, glom.BadSpec):
        out['unbuildable'] += 1     # e.g. S(1, 's'): positional arguments are refused at construction
        return None
    r = repr(x)
    case = dict(root=root, ops=ops, repr=r)
    try:
        y = eval(r, dict(NS, len=len))
    except Exception as e:
        return 'eval(repr(x)) fails with %s for %s' % (type(e).__name__, r)
    try:
        same = isinstance(y, (glom.core.TType, Path)) and ops_equal(tuple(get_ops(x)), tuple(get_ops(y))) \
            and get_ops(x)[0] is get_ops(y)[0]
    except AttributeError:       # e.g. a TType() instance without recorded operations
        same = False
    if not same:
        return 'eval(repr(x)) records different operations: repr %s gives %s' % (r, safe_repr(y)[:80])
    if repr(y) != r:
        return 'repr(eval(repr(x))) = %s differs from %s' % (repr(y), r)
    for proto in range(pickle.HIGHEST_PROTOCOL + 1):
        try:
            z = pickle.loads(pickle.dumps(x, protocol=proto))
        except Exception as e:
            return 'pickle round trip (protocol %d) fails with %s for %s' % (proto, type(e).__name__, r)
        if not ops_equal(tuple(get_ops(x)), tuple(get_ops(z))) or get_ops(x)[0] is not get_ops(z)[0] or repr(z) != r:
            return 'pickle round trip (protocol %d) changes %s into %r' % (proto, r, z)
    for how, z in (('copy.copy', copy.copy(x)), ('copy.deepcopy', copy.deepcopy(x))):
        if not ops_equal(tuple(get_ops(x)), tuple(get_ops(z))) or get_ops(x)[0] is not get_ops(z)[0] or repr(z) != r:
            return '%s changes %s into %r' % (how, r, z)
    # equality takes the root into account: the same steps under another root are a different value
    for other in ('T', 'S', 'A'):
        if other != root and all(o['op'] in ('.', '[', 'P') for o in ops):
            try:
                w = build_expr(other, ops, heap)
            except (TypeError, glom.BadSpec):
                continue
            if isinstance(x, Path) and isinstance(w, Path) and (x == w or not (x != w)):
                return '%s == %s although their roots differ' % (r, safe_repr(w))
    # (steps holding a nested T argument compare by the identity of that argument, like the tuple of steps
    # does: two separately built copies are then different values, which is not checked here)
    nested = any(isinstance(o.get('arg'), dict) and 'ops' in o['arg'] for o in ops) or 'ops' in json.dumps(ops)
    if isinstance(x, Path) and not nested and not (x == build_expr(root, ops, heap)):
        return '%s is not equal to a Path built from the same steps' % r
    if root == 'T':
        modelled = not _has(ops, lambda o, ae: o is not None and o['op'] == '.' and o['arg']['s'].startswith('__'))
        for j, tgt in enumerate(PROBE_TARGETS):
            p = pred['outs'][j]
            seen = {}
            for name, obj in (('original', x), ('eval(repr)', y), ('unpickled', z)):
                h = FHeap(PROBE, fns=FNS)
                seen[name] = observe(h, tgt, obj)
            # the property: the reconstructed objects evaluate identically
            for name in ('eval(repr)', 'unpickled'):
                if seen[name] != seen['original']:
                    return '%s of %s evaluates differently on probe %d: %s vs %s' % (name, r, j + 1, seen[name], seen['original'])
            # binding to the specification (dunder attributes exist on every object: not modelled)
            if modelled and p['err'] != 'OUT_OF_MODEL' and seen['original'] != p:
                return 'original %s on probe %d: predicted %s observed %s' % (r, j + 1, p, seen['original'])
    return None


def worker(states):
    out = dict(n=0, nontrivial=0, unbuildable=0, bad=[], samples=[])
    for st in states:
        if st['kind'] == 'seq':
            why = check_seq(st)
            case = dict(kind='seq', n=st['n'], oper=st['oper'], pred=st['pred'])
            nontrivial = st['n'] >= 2
        elif st['kind'] == 'expr':
            why = check_expr(st, out)
            case = dict(kind='expr', root=st['root'], ops=st['ops'], pred=st['pred'])
            nontrivial = len(st['ops']) >= 2
        else:
            continue
        if why == 'SKIP':
            out['out_of_scope'] = out.get('out_of_scope', 0) + 1
            continue
        out['n'] += 1
        out['nontrivial'] += bool(nontrivial)
        if why:
            out['bad'].append(dict(why=why, case=case))
        elif len(out['samples']) < 1 and nontrivial:
            out['samples'].append(case)
    return out




def replay(path):
    """re-run one stored case (bin/check C18 --replay <file>) against the library as it is now"""
    import json
    blob = json.load(open(path))
    st = _state_of(blob['case'])
    if st is None:
        print('REPLAY property=C18: %s holds a recorded observation, not a case of the enumerated universe; it was rejected with: %s'
              % (path, str(blob.get('why'))[:300]))
        print('(the file alone does not allow the case to be re-executed: re-run bin/check C18 to observe the library again)')
        return 2
    out = _replay_states([st])
    if out['bad']:
        print('VIOLATION property=C18 replay=%s' % path)
        print('  why: %s' % (str(out['bad'][0]['why'])[:400],))
        return 1
    print('REPLAY property=C18: the stored case agrees with the specification now (%s)' % path)
    return 0


def _state_of(case):
    if case.get('kind') == 'seq' and 'oper' in case:
        return dict(kind='seq', n=case['n'], oper=case['oper'], pred=case['pred'])
    if case.get('kind') == 'expr' and 'pred' in case:
        return dict(kind='expr', root=case['root'], ops=case['ops'], pred=case['pred'])
    return None


def _replay_states(states):
    return worker(states)


# ---- known findings --------------------------------------------------------------------------
def _has(ops, pred):
    def in_arg(ae):
        if not isinstance(ae, dict) or 'a' not in ae:
            return False
        if pred(None, ae):
            return True
        if ae['a'] in ('t', 'spec'):
            return _has(ae['ops'], pred)
        if ae['a'] in ('list', 'tuple'):
            return any(in_arg(x) for x in ae['items'])
        return False
    for o in ops:
        if pred(o, None):
            return True
        if o['op'] == '(':
            if any(in_arg(x) for x in o['arg']['args']) or any(in_arg(v) for _, v in o['arg']['kwargs']):
                return True
        elif o['op'] not in ('.', 'P', 'x', 'X', '~', '_') and in_arg(o['arg']):
            return True
    return False


def match_finding(f, case):
    m = f['match']
    k = m.get('kind')
    if case.get('kind') == 'seq':
        oper = case['oper']
        if k == 'index_eq_len':
            return oper['o'] == 'index' and oper['i'] == case['n']
        if k == 'negative_step_explicit_bound':
            return (oper['o'] == 'slice' and oper['sl']['st']['k'] == 'int' and oper['sl']['st']['i'] < 0 and
                    (oper['sl']['lo']['k'] == 'int' or oper['sl']['hi']['k'] == 'int'))
        return False
    ops = case.get('ops', [])
    if k == 'tuple_index_len_le_1':
        return _has(ops, lambda o, ae: o is not None and o['op'] == '[' and o['arg'].get('a') == 'tuple' and len(o['arg']['items']) <= 1)
    if k == 'dunder_attr':
        return _has(ops, lambda o, ae: o is not None and o['op'] == '.' and o['arg']['s'].startswith('__'))
    if k == 'rooted_path_repr':
        return case.get('root') in ('S', 'A') and any(o['op'] == 'P' for o in ops)
    return False


# ---- code -> spec --------------------------------------------------------------------------------
def record_seq(check, nrows, seed):
    rng = random.Random(seed)
    rows = []
    for _ in range(nrows):
        n = rng.randint(0, 9)
        steps = list(range(1, n + 1))
        p = mk_path(steps)
        ident = {p[j:j + 1].items(): j + 1 for j in range(n)}     # one-step paths identify steps

        def back(path):
            return [ident.get(path[j:j + 1].items(), 0) for j in range(len(path))]
        if rng.random() < 0.3:
            i = rng.randint(-n - 2, n + 2)
            try:
                r = p[i]
                obs = {'ok': True, 'steps': back(r)}
            except IndexError:
                obs = {'ok': False, 'steps': []}
            rows.append(dict(n=n, oper={'o': 'index', 'i': i}, obs=obs))
        else:
            def b():
                return {'k': 'none'} if rng.random() < 0.3 else {'k': 'int', 'i': rng.randint(-n, n)}
            st = rng.choice([{'k': 'none'}, {'k': 'int', 'i': 1}, {'k': 'int', 'i': 2}, {'k': 'int', 'i': 3},
                             {'k': 'int', 'i': -1}, {'k': 'int', 'i': -2}, {'k': 'int', 'i': -3}])
            sl = {'k': 'slice', 'lo': b(), 'hi': b(), 'st': st}
            if not in_range(n, sl):
                continue
            s = slice(*[None if sl[f]['k'] == 'none' else sl[f]['i'] for f in ('lo', 'hi', 'st')])
            r = p[s]
            rows.append(dict(n=n, oper={'o': 'slice', 'sl': sl}, obs={'ok': True, 'steps': back(r)}))
    rejects = vlib.validate_rows(check, 'Trace_C18', rows, 'random-seq')
    for row, rej in rejects:
        check.violation(dict(kind='seq', n=row['n'], oper=row['oper'], obs=row['obs'], pred=rej.get('pred')),
                        'recorded Path operation rejected by the sequence law: n=%d %s observed %s expected %s'
                        % (row['n'], row['oper'], row['obs'], rej.get('pred')), matcher=match_finding)
    check.sample(dict(kind='recorded-seq', **rows[0]), limit=8)
    return len(rows)


def main(tier, seed):
    check = vlib.Check(PROP, tier, seed)
    consts = {'quick': dict(MaxN=5, MaxOps=2), 'thorough': dict(MaxN=6, MaxOps=3)}[tier]
    res, results = vlib.map_states('MC_C18', worker, constants=consts)
    check.add_tlc(res, 'MC_C18 %s' % consts)
    for r in results:
        check.cov['evaluations'] += r['n']
        check.cov['distinct_nontrivial'] += r['nontrivial']
        check.validated(r['n'] - len(r['bad']))
        check.extra['unbuildable'] = check.extra.get('unbuildable', 0) + r['unbuildable']
        check.extra['out_of_range_slices_skipped'] = check.extra.get('out_of_range_slices_skipped', 0) + r.get('out_of_scope', 0)
        for s in r['samples']:
            check.sample(s)
        for b in r['bad']:
            check.violation(b['case'], b['why'], matcher=match_finding)
    check.extra['recorded_rows'] = record_seq(check, {'quick': 20000, 'thorough': 200000}[tier], seed)
    check.extra['constants'] = consts
    check.assumptions += ['the text of a literal is delegated to Python repr; literals are ints, strings (with quotes and dots), '
                          'None, floats, tuples, slices, builtins and nested T',
                          'S-rooted calls with positional arguments cannot be constructed and are skipped (counted)',
                          'TLC, the Json community module and the codec are trusted']
    return check.finish(rule='TLC enumerates every (n <= MaxN, index | slice triple | concat | startswith | len) question and every '
                        'expression of <= MaxOps operations over a 31-letter alphabet x roots T/S/A; non-trivial = n >= 2 or >= 2 '
                        'operations', exhaustive=True)
