"""Helpers for C03: generic walks over spec ASTs, pretty printer, and the seeded random
generator of (target, spec) pairs used in the code -> spec direction.  The generator is
type-directed: it looks at the concrete target a sub-spec will receive (running the real
library on the steps generated so far as a guide) so that deep specs mostly succeed; a share
of type-blind choices and of SKIP / STOP / raising leaves is mixed in at every position.
The generator only chooses inputs; it predicts nothing."""
import codec

STRS = ['', 's', 'uv', 'u', 'v']
KEYS = ['a', 'b', 'k', 'n', 'z']


# ---- AST walks ----------------------------------------------------------------------------------
def parts(ast):
    """direct sub-specs of a node, in reading order"""
    op = ast['op']
    out = list(ast.get('kids', []))
    if op == 'dict':
        out = []
        for key, kid in zip(ast['keys'], ast['kids']):
            if not key['lit']:
                out.append(key['s'])
            out.append(kid)
    elif op == 'coalesce' and ast['dflt']['kind'] == 'arg':
        out.append(ast['dflt']['a'])
    elif op == 'call':
        out = [ast['func'], ast['args'], ast['kwargs']]
    elif op == 'invoke':
        out = [ast['func']]
        for c in ast['chunks']:
            if c['c'] == 'S':
                out += list(c['args']) + [v for _, v in c['kw']]
            elif c['c'] == '*':
                out += list(c['args']) + list(c['kw'])
    return out


def depth(ast):
    ps = parts(ast)
    return 1 + (max(depth(p) for p in ps) if ps else 0)


def histogram(it):
    h = {}
    for x in it:
        h[str(x)] = h.get(str(x), 0) + 1
    return dict(sorted(h.items()))


def showv(v):
    k = v['k']
    return {'int': lambda: repr(v['i']), 'str': lambda: repr(v['s']), 'none': lambda: 'None',
            'bool': lambda: repr(v['b']), 'ref': lambda: '<cell %d>' % v['a'],
            'sent': lambda: v['s'], 'fn': lambda: v['s'], 'elist': lambda: '[]', 'edict': lambda: '{}'}[k]()


def show(ast):
    op = ast['op']
    kids = [show(k) for k in ast.get('kids', [])]
    if op == 'path':
        return repr(ast['text'])
    if op == 't':
        return 'T' + ''.join('[%s]' % showv(s['arg']) if s['op'] == '[' else '.%s' % s['arg']['s'] for s in ast['steps'])
    if op == 'const':
        return showv(ast['v'])
    if op == 'fn':
        return ast['name']
    if op == 'val':
        return 'Val(%s)' % showv(ast['v'])
    if op == 'dict':
        body = ', '.join('%s: %s' % (showv(k['v']) if k['lit'] else show(k['s']), v) for k, v in zip(ast['keys'], kids))
        return ('OrderedDict({%s})' if ast['ordered'] else '{%s}') % body
    if op == 'list':
        return '[%s]' % ', '.join(kids)
    if op == 'tuple':
        return '(%s%s)' % (', '.join(kids), ',' if len(kids) == 1 else '')
    if op == 'ntuple':
        return 'PAIR(%s)' % ', '.join(kids)
    if op in ('pipe', 'spec', 'fill', 'auto'):
        return '%s(%s)' % (op.capitalize(), ', '.join(kids))
    if op == 'inspect':
        return 'Inspect(%s, recursive=%s, echo=%s%s%s)' % (kids[0], ast['rec'], ast['echo'],
                                                         ', breakpoint=' + ast['bp'] if ast['bp'] else '',
                                                         ', post_mortem=' + ast['pm'] if ast['pm'] else '')
    if op == 'set':
        return ('frozenset({%s})' if ast['frozen'] else '{%s}' if kids else 'set(%s)') % ', '.join(kids)
    if op == 'sget':
        return 'S.%s' % ast['name'] if ast['form'] == '.' else 'S[%r]' % ast['name']
    if op == 'sset':
        return 'S(%s)' % ', '.join('%s=%s' % nk for nk in zip(ast['names'], kids))
    if op == 'aset':
        return 'A.%s' % ast['name']
    if op == 'specs':
        return 'Spec(%s, scope={%s})' % (kids[0], ', '.join('%r: %s' % (n, showv(v)) for n, v in ast['scope']))
    if op == 'ref':
        return 'Ref(%r%s)' % (ast['name'], ', ' + kids[0] if ast['def'] else '')
    if op == 'coalesce':
        kw = []
        d, sk = ast['dflt'], ast['skip']
        if d['kind'] == 'arg':
            kw.append('default=%s' % show(d['a']))
        if d['kind'] == 'factory':
            kw.append('default_factory=%s' % d['name'])
        if sk['kind'] == 'val':
            kw.append('skip=%s' % showv(sk['v']))
        if sk['kind'] == 'tuple':
            kw.append('skip=(%s,)' % ', '.join(showv(v) for v in sk['vs']))
        if sk['kind'] == 'pred':
            kw.append('skip=%s' % sk['name'])
        if ast['skipexc'] != ['GlomError']:
            kw.append('skip_exc=(%s)' % ', '.join(ast['skipexc']))
        return 'Coalesce(%s)' % ', '.join(kids + kw)
    if op == 'call':
        return 'Call(%s, args=%s, kwargs=%s)' % (show(ast['func']), show(ast['args']), show(ast['kwargs']))
    if op == 'invoke':
        s = 'Invoke(%s)' % show(ast['func'])
        for c in ast['chunks']:
            if c['c'] == 'C':
                s += '.constants(%s)' % ', '.join([showv(v) for v in c['args']] + ['%s=%s' % (k['s'], showv(v)) for k, v in c['kw']])
            elif c['c'] == 'S':
                s += '.specs(%s)' % ', '.join([show(v) for v in c['args']] + ['%s=%s' % (k['s'], show(v)) for k, v in c['kw']])
            else:
                s += '.star(%s)' % ', '.join(['args=%s' % show(v) for v in c['args']] + ['kwargs=%s' % show(v) for v in c['kw']])
        return s
    return '?%s' % op


# ---- AST constructors ------------------------------------------------------------------------------
def VI(i):
    return {'k': 'int', 'i': i}


def VS(s):
    return {'k': 'str', 's': s}


NONE = {'k': 'none'}
SKIP = {'k': 'sent', 's': 'SKIP'}
STOP = {'k': 'sent', 's': 'STOP'}


def P(*segs):
    return {'op': 'path', 'text': '.'.join(segs), 'segs': list(segs)}


def TT(*steps):
    return {'op': 't', 'steps': [{'op': o, 'arg': a} for o, a in steps]}


def F(name):
    return {'op': 'fn', 'name': name}


def V(v):
    return {'op': 'val', 'v': v}


def C(v):
    return {'op': 'const', 'v': v}


def W(op, kid):
    return {'op': op, 'kids': [kid]}


def N(op, kids):
    return {'op': op, 'kids': list(kids)}


def D(pairs, ordered=False):
    return {'op': 'dict', 'ordered': ordered,
            'keys': [k if isinstance(k, dict) and 'lit' in k else {'lit': True, 'v': VS(k)} for k, _ in pairs],
            'kids': [v for _, v in pairs]}


def KS(spec):
    return {'lit': False, 's': spec}


def COAL(kids, dflt=None, skip=None, skipexc=('GlomError',)):
    return {'op': 'coalesce', 'kids': list(kids), 'dflt': dflt or {'kind': 'none'},
            'skip': skip or {'kind': 'none'}, 'skipexc': list(skipexc)}


def REFUSE():
    return {'op': 'ref', 'name': 'r', 'def': False, 'kids': []}


def REFDEF(kid):
    return {'op': 'ref', 'name': 'r', 'def': True, 'kids': [kid]}


def leaky(ast):
    return ast['op'] in ('fill', 'auto', 'specs') or (ast['op'] == 'ref' and ast['def']) \
        or (ast['op'] == 'inspect' and ast['rec'])


def has_inspect(ast):
    return ast['op'] == 'inspect' or any(has_inspect(p) for p in parts(ast))


# ---- random targets ---------------------------------------------------------------------------------
def rand_target(rng):
    """nested data (dict / OrderedDict / list / tuple / attribute objects, depth <= 4) with some
    sharing, no cycles; string values are restricted to the strings GlomData can index"""
    cells = []
    gen_ok = [True]

    def scalar():
        r = rng.random()
        if r < 0.12:
            return rng.choice([VI(0), VS(''), {'k': 'bool', 'b': False}, NONE, VI(-1), VI(1), {'k': 'bool', 'b': True}])
        if r < 0.45:
            return VI(rng.randint(-2, 5))
        if r < 0.6:
            return NONE
        if r < 0.8:
            return VS(rng.choice(STRS))
        if r < 0.9:
            return {'k': 'bool', 'b': rng.random() < 0.5}
        return {'k': 'fn', 's': rng.choice(['inc', 'echo', 'pair', 'ident'])}

    def value(d):
        if d <= 0 or rng.random() < 0.35:
            return scalar()
        if cells and rng.random() < 0.12:
            return {'k': 'ref', 'a': rng.randint(1, len(cells))}      # sharing (earlier cell: no cycle)
        return container(d)

    def container(d):
        r = rng.random()
        if r < 0.04:          # attribute objects with a hostile __eq__
            cells.append({'cls': rng.choice(['eqall', 'eqraise']), 'items': []})
            return {'k': 'ref', 'a': len(cells)}
        if r < 0.08:          # empty containers (equal to each other, distinct objects)
            cells.append({'cls': rng.choice(['list', 'dict', 'odict']), 'items': []})
            return {'k': 'ref', 'a': len(cells)}
        cls = rng.choice(['dict', 'dict', 'dict', 'list', 'list', 'odict', 'tuple', 'obj', 'gen'])
        if cls == 'gen':      # a one-shot iterator (never inside a tuple: see make_heap)
            if gen_ok[0]:
                cells.append({'cls': 'gen', 'items': [scalar() for _ in range(rng.randint(0, 3))], 'pulled': 0})
                return {'k': 'ref', 'a': len(cells)}
            cls = 'list'
        if cls in ('dict', 'odict', 'obj'):
            keys = rng.sample(KEYS, rng.randint(1, 4))
            items = [[VS(k), value(d - 1)] for k in keys]
        elif cls == 'tuple':
            gen_ok[0] = False
            items = [value(d - 1) for _ in range(rng.randint(1, 2))]
            gen_ok[0] = True
            if any(v['k'] == 'ref' and cells[v['a'] - 1]['cls'] == 'gen' for v in items):
                items = [scalar()]
        else:
            n = rng.randint(0, 3)
            if rng.random() < 0.6 and n:      # homogeneous list
                first = value(d - 1)
                if first['k'] == 'ref':
                    proto = cells[first['a'] - 1]
                    items = [first] + [clone_shape(proto, d - 1) for _ in range(n - 1)]
                else:
                    items = [first] + [scalar_like(first) for _ in range(n - 1)]
            else:
                items = [value(d - 1) for _ in range(n)]
        cells.append({'cls': cls, 'items': items})
        return {'k': 'ref', 'a': len(cells)}

    def scalar_like(v):
        if v['k'] == 'int':
            return VI(rng.randint(-2, 5))
        return scalar()

    def clone_shape(proto, d):
        if proto['cls'] in ('eqall', 'eqraise', 'gen'):
            cells.append(dict(proto, items=list(proto['items'])))
            return {'k': 'ref', 'a': len(cells)}
        if proto['cls'] in ('dict', 'odict', 'obj'):
            items = [[k, value(d - 1) if v['k'] == 'ref' else scalar_like(v)] for k, v in proto['items']]
            if rng.random() < 0.3 and items:
                items.pop(rng.randrange(len(items)))
        else:
            items = [scalar_like(v) if v['k'] != 'ref' else value(d - 1) for v in proto['items']]
            if proto['cls'] == 'tuple' and not items:
                items = [scalar()]
        cells.append({'cls': proto['cls'], 'items': items})
        return {'k': 'ref', 'a': len(cells)}

    root = container(rng.randint(2, 4)) if rng.random() < 0.93 else scalar()
    for c in cells:           # a one-shot iterator cannot be swapped into an immutable cell afterwards
        if c['cls'] in ('tuple', 'frozenset', 'set'):
            c['items'] = [VI(0) if v['k'] == 'ref' and cells[v['a'] - 1]['cls'] == 'gen' else v for v in c['items']]
    if not cells:
        cells.append({'cls': 'list', 'items': []})
    return cells, root


# ---- random specs -----------------------------------------------------------------------------------
FALSY_VALS = [VI(0), VS(''), {'k': 'bool', 'b': False}, NONE]
ODD_LEAVES = [V(VI(0)), V(VS('')), V({'k': 'bool', 'b': False}), F('ret_SKIP'), F('ret_STOP'), F('raise_KeyError'), F('raise_ValueError'), F('raise_GlomError'),
              V(SKIP), V(STOP), V(NONE), V(VI(1)), C(VI(3)), P('x'), F('ident'), F('inc'), F('size'),
              TT(('[', VS('x'))), TT(('.', VS('a'))), TT(), F('is_none'), F('echo'), F('ret_None'), F('ret_None'), F('Tagged'), F('Tagged')]


class Gen:
    def __init__(self, rng, cells, run, mk_fns, make_heap=None):
        self.rng = rng
        self.cells = cells
        # guide objects (log discarded)
        self.heap = make_heap(cells, mk_fns([])) if make_heap else codec.Heap(cells, codec.PLAIN, fns=mk_fns([]))
        self.run = run
        self.in_ref = 0
        self.in_fill = 0
        self.in_rec_inspect = 0
        self.names = []            # scope names that may be in force (for S.x leaves)
        self.top_scope = []

    # what the guide knows about a target: a python object
    def obj(self, v):
        return self.heap.val(v)

    def guide(self, ast, tgt):
        """result object of the real library on (tgt, ast), or a marker when it fails / is a sentinel"""
        import glom
        glom.core.print = lambda *a: None        # (Inspect(echo=True) in a guide run must stay silent)
        try:
            r = self.run(ast, tgt, self.heap)
        except Exception:
            return ('fail',)
        finally:
            del glom.core.print
        if r is glom.SKIP:
            return ('skip',)
        if r is glom.STOP:
            return ('stop',)
        return ('ok', r)

    def spec(self, root, d):
        if self.rng.random() < 0.12:
            self.top_scope = [['v', VI(9)]]
            self.names = ['v']
        return self.gen(self.obj(root), d)

    def top_opts(self):
        """top-level arguments of the glom() call: default / skip_exc / scope"""
        rng = self.rng
        o = {'dflt': [], 'skipexc': [], 'scope': self.top_scope}
        r = rng.random()
        if r < 0.12:
            o['dflt'] = [rng.choice([VI(7), NONE, SKIP, VS('s'), VI(0), VS(''), {'k': 'bool', 'b': False}])]
        if 0.08 < r < 0.2:
            o['skipexc'] = [rng.choice([['KeyError'], ['ValueError', 'TypeError'], ['Exception'], ['GlomError'],
                                        ['LookupError'], []])]
        return o

    # -- leaves ------------------------------------------------------------------------------------
    def leaf(self, tgt):
        rng = self.rng
        if rng.random() < 0.22:
            return rng.choice(ODD_LEAVES)
        if rng.random() < 0.02:
            return {'op': 'ref', 'name': 'q', 'def': False, 'kids': []}     # no definition encloses it: KeyError
        if rng.random() < (0.25 if self.names else 0.02):
            return {'op': 'sget', 'name': rng.choice(self.names + ['w']), 'form': rng.choice('.[')}
        if isinstance(tgt, dict) and tgt:
            k = rng.choice(list(tgt.keys()))
            if isinstance(k, str) and k and '.' not in k:
                r = rng.random()
                if r < 0.5:
                    sub = tgt[k]
                    if isinstance(sub, dict) and sub and rng.random() < 0.4:
                        k2 = rng.choice(list(sub.keys()))
                        if isinstance(k2, str) and k2 and '.' not in k2:
                            return P(k, k2)
                    return P(k)
                if r < 0.8:
                    return TT(('[', VS(k)))
                return rng.choice([F('size'), F('ident'), TT()])
        if isinstance(tgt, (list, tuple)):
            r = rng.random()
            n = len(tgt)
            if r < 0.12:      # boundary indices: first, last, exactly the length, one beyond either end
                i = rng.choice([0, -1, n, n - 1, -n, -n - 1, 1])
                return P(str(i)) if rng.random() < 0.5 and -9 <= i <= 9 else TT(('[', VI(i)))
            if n and r < 0.35:
                return P(str(rng.randint(-n, n - 1)))
            if n and r < 0.6:
                return TT(('[', VI(rng.randint(-n, n - 1))))
            if r < 0.7:
                return P('5')
            return rng.choice([F('size'), F('ident'), TT()])
        if isinstance(tgt, codec.Obj) and vars(tgt):
            k = rng.choice(list(vars(tgt).keys()))
            return rng.choice([P(k), TT(('.', VS(k))), F('ident')])
        if isinstance(tgt, bool) or isinstance(tgt, int):
            return rng.choice([F('inc'), F('inc'), F('ident'), TT(), F('is_int')])
        if isinstance(tgt, str):
            if tgt not in STRS:          # GlomData indexes / measures only these strings
                return rng.choice([F('ident'), TT(), F('is_none'), P('x')])
            return rng.choice([F('size'), F('ident'), TT(('[', VI(0))), TT()])
        return rng.choice([F('ident'), TT(), F('is_none'), V(VI(2))])

    def arg(self, tgt, d):
        """an argument-mode template: T / Val / constants / Spec(..) / nested literal containers"""
        rng = self.rng
        r = rng.random()
        if r < 0.3:
            t = self.leaf(tgt)
            return t if t['op'] == 't' else TT()
        if r < 0.45:
            return V(rng.choice([VI(5), NONE, VS('s'), SKIP]))
        if r < 0.6:
            return C(rng.choice([VI(3), NONE, VS('u'), {'k': 'bool', 'b': True}]))
        if r < 0.68:
            return rng.choice([P('a'), F('inc')])            # literal string / function passed through
        if r < 0.9 or d <= 1:
            return W('spec', self.gen(tgt, max(1, d - 1)))
        if rng.random() < 0.5:
            return N('list', [self.arg(tgt, d - 1) for _ in range(rng.randint(0, 2))])
        if rng.random() < 0.5:
            return N('tuple', [self.arg(tgt, d - 1) for _ in range(rng.randint(1, 2))])
        return D([(k, self.arg(tgt, d - 1)) for k in rng.sample(['x', 'y', 'p'], rng.randint(0, 2))])

    def fill_template(self, tgt, d):
        rng = self.rng
        if d <= 1 or rng.random() < 0.3:
            return rng.choice([self.leaf(tgt), P('a'), C(VI(3)), TT(), F('ident')])
        r = rng.random()
        if r < 0.1:
            kid = self.fill_template(tgt, 1)
            if kid['op'] in ('dict', 'list', 'set'):
                kid = TT()
            return {'op': 'set', 'kids': [kid] if rng.random() < 0.8 else [], 'frozen': rng.random() < 0.5}
        if r < 0.35:
            return N('list', [self.fill_template(tgt, d - 1) for _ in range(rng.randint(0, 3))])
        if r < 0.6:
            return N('tuple', [self.fill_template(tgt, d - 1) for _ in range(rng.randint(1, 3))])
        if r < 0.85:
            return D([(k, self.fill_template(tgt, d - 1)) for k in rng.sample(['p', 'q', 'r'], rng.randint(0, 2))])
        return self.gen(tgt, d - 1, chain_step=True)

    # -- composites ---------------------------------------------------------------------------------
    def gen(self, tgt, d, chain_step=False):
        rng = self.rng
        if d <= 1:
            return self.leaf(tgt)
        kinds = ['dict', 'dict', 'chain', 'chain', 'coalesce', 'coalesce', 'spec', 'call', 'invoke', 'leaf']
        if not self.in_rec_inspect:
            kinds += ['inspect']
        if not chain_step:
            kinds += ['specs']
        if isinstance(tgt, (list, tuple, dict)) or hasattr(tgt, 'pulled'):
            kinds += ['list', 'list', 'list']
        if not chain_step:
            kinds += ['fill', 'auto']
            if not self.in_ref:
                kinds += ['ref']
        kind = rng.choice(kinds)
        m = getattr(self, 'g_' + kind)
        return m(tgt, d)

    def g_leaf(self, tgt, d):
        return self.leaf(tgt)

    def g_inspect(self, tgt, d):
        rng = self.rng
        rec = rng.random() < 0.35
        if rec:
            self.in_rec_inspect += 1        # (an Inspect below a recursive Inspect never returns: reported)
        try:
            kid = self.gen(tgt, d - 1)
        finally:
            if rec:
                self.in_rec_inspect -= 1
        if rec and has_inspect(kid):
            rec = False
        hooks = rng.random() < 0.3
        return {'op': 'inspect', 'kids': [kid], 'rec': rec, 'echo': rng.random() < 0.7,
                'bp': rng.choice(['mk0', 'echo', 'mk0', 'raise_KeyError']) if hooks and rng.random() < 0.7 else '',
                'pm': rng.choice(['mk0', 'echo', 'raise_ValueError']) if hooks and rng.random() < 0.7 else ''}

    def g_specs(self, tgt, d):
        self.names.append('v')
        try:
            return {'op': 'specs', 'kids': [self.gen(tgt, d - 1)], 'scope': [['v', self.rng.choice([VI(5), NONE, VS('u')])]]}
        finally:
            self.names.pop()

    def g_spec(self, tgt, d):
        return W('spec', self.gen(tgt, d - 1))

    def g_auto(self, tgt, d):
        return W('auto', self.gen(tgt, d - 1))

    def g_fill(self, tgt, d):
        self.in_fill += 1
        try:
            return W('fill', self.fill_template(tgt, d - 1))
        finally:
            self.in_fill -= 1

    def g_dict(self, tgt, d):
        rng = self.rng
        if rng.random() < 0.04:
            # a name defined in one entry is not visible in a sibling entry
            pairs = [('p', {'op': 'ref', 'name': 'q', 'def': True, 'kids': [self.leaf(tgt)]}),
                     ('q', {'op': 'ref', 'name': 'q', 'def': False, 'kids': []})]
            rng.shuffle(pairs)
            return D(pairs)
        pairs = []
        falsy_keys = rng.random() < 0.1
        for k in rng.sample(['p', 'q', 'r'], rng.randint(1, 3)):
            key = {'lit': True, 'v': {'p': VI(0), 'q': VS(''), 'r': NONE}[k]} if falsy_keys else k
            if rng.random() < 0.2:
                cand = [kk for kk, vv in tgt.items() if isinstance(kk, str) and isinstance(vv, (str, int, type(None)))] \
                    if isinstance(tgt, dict) else []
                if cand and rng.random() < 0.8:
                    kk = rng.choice(cand)
                    key = KS(rng.choice([TT(('[', VS(kk))), W('spec', P(kk))]))
                else:
                    key = KS(rng.choice([TT(('[', VS('x'))), W('spec', F('ret_SKIP')), W('spec', F('size')), TT()]))
            if isinstance(key, dict) and not key.get('lit') and key['s'] == TT():
                if any(isinstance(k0, dict) and not k0.get('lit') and k0['s'] == TT() for k0, _ in pairs):
                    key = k                      # bare T is one object: it can be a key only once
            pairs.append((key, self.gen(tgt, d - 1)))
        # (an OrderedDict inside Fill is returned as the spec object itself: outside the fragment)
        return D(pairs, ordered=rng.random() < 0.3 and not self.in_fill)

    def g_list(self, tgt, d):
        items = list(getattr(tgt, '_items', tgt))          # (a one-shot iterator of the guide heap is not consumed)
        first = items[0] if items else None
        return N('list', [self.gen(first, d - 1)])

    def g_chain(self, tgt, d):
        rng = self.rng
        steps = []
        cur = tgt
        n = rng.randint(1, 3)
        pushed = 0
        for i in range(n):
            if i < n - 1 and rng.random() < 0.15:
                # a step that binds a scope name for the rest of the chain: S(v=arg) / A.v
                name = rng.choice(['v', 'w'])
                steps.append({'op': 'aset', 'name': name} if rng.random() < 0.4 else
                             {'op': 'sset', 'names': [name], 'kids': [self.arg(cur, max(1, d - 2))]})
                self.names.append(name)
                pushed += 1
                continue
            st = self.gen(cur, d - 1, chain_step=(i < n - 1))
            if rng.random() < 0.15:
                # a chain nested directly in the chain, ended / thinned by a sentinel at an inner position
                inner = [self.leaf(cur) for _ in range(rng.randint(0, 2))]
                inner.insert(rng.randint(0, len(inner)), rng.choice([F('ret_STOP'), F('ret_SKIP'), V(STOP)]))
                st = N(rng.choice(['pipe', 'tuple']), inner)
            if i < n - 1 and leaky(st):
                st = self.leaf(cur)
            steps.append(st)
            g = self.guide(st, cur)
            if g[0] == 'ok':
                cur = g[1]
            elif g[0] in ('fail', 'stop') and rng.random() < 0.7:
                break
        for _ in range(pushed):
            self.names.pop()
        if rng.random() < 0.08:
            steps = []
        if len(steps) == 2 and rng.random() < 0.25:
            return N('ntuple', steps)
        return N('pipe' if rng.random() < 0.4 and steps else 'tuple', steps)

    def g_coalesce(self, tgt, d):
        rng = self.rng
        n = rng.randint(1, 3)
        kids = []
        for i in range(n):
            if i < n - 1 and rng.random() < 0.6:
                kids.append(rng.choice([P('x'), F('raise_KeyError'), F('raise_GlomError'), F('raise_ValueError'),
                                        TT(('[', VS('x'))), V(NONE), V(VI(0)), F('ret_None'), self.leaf(tgt)]))
            elif rng.random() < 0.12:          # an alternative that succeeds with None (must win unless skipped)
                kids.append(rng.choice([V(NONE), F('ret_None')]))
            else:
                kids.append(self.gen(tgt, d - 1))
        dflt = rng.choice([None, None, {'kind': 'arg', 'a': C(rng.choice(FALSY_VALS))}, {'kind': 'arg', 'a': N('list', [])},
                           {'kind': 'arg', 'a': D([])},
                           {'kind': 'arg', 'a': C(NONE)}, {'kind': 'arg', 'a': C(SKIP)},
                           {'kind': 'arg', 'a': C(STOP)}, {'kind': 'arg', 'a': self.arg(tgt, 2)},
                           {'kind': 'factory', 'name': rng.choice(['mk0', 'echo', 'raise_KeyError'])}])
        skip = rng.choice([None, None, {'kind': 'val', 'v': rng.choice([NONE, VI(0), VI(1), {'k': 'bool', 'b': True}, VS('')])},
                           {'kind': 'val', 'v': rng.choice([{'k': 'elist'}, {'k': 'edict'}, {'k': 'bool', 'b': False}])},
                           {'kind': 'tuple', 'vs': rng.choice([[NONE, VI(0)], [VS(''), NONE], [], [VI(1)],
                                                               [{'k': 'elist'}, {'k': 'edict'}, NONE], [VS(''), {'k': 'elist'}]])},
                           {'kind': 'pred', 'name': rng.choice(['is_none', 'is_int', 'raise_GlomError', 'raise_ValueError'])}])
        ex = rng.choice([['GlomError']] * 4 + [['KeyError'], ['ValueError', 'TypeError'], ['Exception'],
                                               ['PathAccessError'], ['LookupError'], []])
        return COAL(kids, dflt, skip, ex)

    def g_call(self, tgt, d):
        rng = self.rng
        fcand = [F('echo'), F('echo'), F('pair'), F('inc'), F('ident'), F('Tagged')]
        if isinstance(tgt, dict):
            fcand += [TT(('[', VS(k))) for k, v in tgt.items() if callable(v) and isinstance(k, str)]
            fcand += [W('spec', P(k)) for k, v in tgt.items() if callable(v) and isinstance(k, str) and k]
        if rng.random() < 0.08:
            fcand = [TT(), W('spec', F('ret_SKIP')), W('spec', F('raise_KeyError'))]
        func = rng.choice(fcand)
        r = rng.random()
        if r < 0.75:
            args = N('tuple', [self.arg(tgt, d - 1) for _ in range(rng.randint(0, 2))])
        elif r < 0.9:
            args = N('list', [self.arg(tgt, d - 1) for _ in range(rng.randint(0, 2))])
        else:
            args = rng.choice([TT(), C(VI(3)), W('spec', self.gen(tgt, max(1, d - 2)))])
        r = rng.random()
        if r < 0.55:
            kwargs = D([])
        elif r < 0.9:
            kwargs = D([(k, self.arg(tgt, d - 1)) for k in rng.sample(['x', 'y'], rng.randint(1, 2))])
        else:
            kwargs = rng.choice([TT(), C(VI(3)), N('list', [])])
        return {'op': 'call', 'func': func, 'args': args, 'kwargs': kwargs}

    def g_invoke(self, tgt, d):
        rng = self.rng
        func = rng.choice([F('echo')] * 4 + [F('pair'), F('inc')])
        if isinstance(tgt, dict) and rng.random() < 0.3:
            fk = [k for k, v in tgt.items() if callable(v) and isinstance(k, str) and k]
            if fk:
                func = rng.choice([TT(('[', VS(rng.choice(fk)))), W('spec', P(rng.choice(fk)))])
        if rng.random() < 0.05:
            func = W('spec', self.leaf(tgt))
        chunks = []
        for _ in range(rng.randint(0, 3)):
            c = rng.choice('CSS*')
            names = rng.sample(['x', 'y'], rng.randint(0, 2)) if rng.random() < 0.5 else []
            if c == 'C':
                chunks.append({'c': 'C', 'args': [rng.choice([VI(1), NONE, VS('s')]) for _ in range(rng.randint(0, 2))],
                               'kw': [[VS(k), VI(rng.randint(5, 9))] for k in names]})
            elif c == 'S':
                chunks.append({'c': 'S', 'args': [self.gen(tgt, d - 1) for _ in range(rng.randint(0, 2))],
                               'kw': [[VS(k), self.gen(tgt, d - 1)] for k in names]})
            else:
                a, k = [], []
                seqs = [kk for kk, vv in tgt.items() if isinstance(vv, (list, tuple)) and isinstance(kk, str) and kk] \
                    if isinstance(tgt, dict) else []
                maps = [kk for kk, vv in tgt.items() if isinstance(vv, dict) and isinstance(kk, str) and kk] \
                    if isinstance(tgt, dict) else []
                if rng.random() < 0.7:
                    a = [P(rng.choice(seqs)) if seqs and rng.random() < 0.7 else
                         rng.choice([N('list', [self.gen(None, 1)]), TT(), self.leaf(tgt), W('fill', N('list', [TT(), C(VI(1))]))])]
                if not a or rng.random() < 0.5:
                    k = [P(rng.choice(maps)) if maps and rng.random() < 0.6 else
                         rng.choice([D([('x', self.gen(tgt, max(1, d - 2)))]), D([]), TT(), V(NONE), self.leaf(tgt)])]
                chunks.append({'c': '*', 'args': a, 'kw': k})
        return {'op': 'invoke', 'func': func, 'chunks': chunks}

    def g_ref(self, tgt, d):
        """recursion on nested data: descend through a key / the items, stop where the descent fails"""
        rng = self.rng
        self.in_ref += 1
        try:
            if isinstance(tgt, dict):
                nested = [k for k, v in tgt.items() if isinstance(v, dict) and isinstance(k, str) and k]
                k = rng.choice(nested) if nested and rng.random() < 0.85 else rng.choice(KEYS)
                pairs = [('p', self.gen(tgt, max(1, d - 2))),
                         ('q', COAL([N('tuple', [P(k), REFUSE()])], {'kind': 'arg', 'a': C(rng.choice([NONE, SKIP]))}))]
                if rng.random() < 0.4:
                    # the same name defined again in a sibling entry evaluated first: it ends with its
                    # own sub-spec and must not change what the later use means
                    shadow = REFDEF(rng.choice([self.leaf(tgt), COAL([N('list', [REFUSE()])], {'kind': 'arg', 'a': TT()},
                                                                     None, ['Exception'])]))
                    pairs.insert(rng.randint(0, 1), ('r', shadow))
                body = D(pairs)
            elif isinstance(tgt, (list, tuple)):
                body = COAL([N('list', [REFUSE()]), self.gen(None, 1)],
                            rng.choice([None, {'kind': 'arg', 'a': C(SKIP)}]),
                            None, rng.choice([['GlomError'], ['Exception']]))
            else:
                body = self.gen(tgt, d - 1)
            return REFDEF(body)
        finally:
            self.in_ref -= 1
