import glob
import os
import sys
from concurrent.futures import ThreadPoolExecutor

import vlib


def main():
    mods = sorted(os.path.basename(p)[:-4] for p in glob.glob(os.path.join(vlib.SPEC_DIR, '*.tla')))
    bad = 0
    with ThreadPoolExecutor(8) as ex:
        for m, (ok, out) in zip(mods, ex.map(vlib.sany, mods)):
            if not ok:
                bad += 1
                print('SANY FAILED', m)
                print(out[-1500:])
    import codec
    cells = [{'cls': 'list', 'items': [{'k': 'ref', 'a': 2}, {'k': 'ref', 'a': 1}]},
             {'cls': 'tuple', 'items': [{'k': 'ref', 'a': 3}, {'k': 'int', 'i': 1}]},
             {'cls': 'dict', 'items': [[{'k': 'str', 's': 'a'}, {'k': 'ref', 'a': 2}]]}]
    h = codec.Heap(cells)
    if h.snapshot() != cells:
        bad += 1
        print('codec round trip failed', h.snapshot())
    print('setup: %d modules parsed, %d problems' % (len(mods), bad))
    return 1 if bad else 0


if __name__ == '__main__':
    sys.exit(main())
