import glob
import os
import re
import sys
from concurrent.futures import ThreadPoolExecutor

import vlib
import props


def deps(mod, seen):
    if mod in seen:
        return
    path = os.path.join(vlib.SPEC_DIR, mod + '.tla')
    if not os.path.exists(path):
        return
    seen.add(mod)
    text = open(path).read()
    for m in re.finditer(r'^\s*(?:EXTENDS|INSTANCE)\s+([^\n]*)', text, re.M):
        for name in re.split(r'[,\s]+', m.group(1).split('WITH')[0].strip()):
            if name:
                deps(name, seen)


def main():
    mods = sorted(os.path.basename(p)[:-4] for p in glob.glob(os.path.join(vlib.SPEC_DIR, '*.tla')))
    critical = set()
    for m in mods:
        if any(pid in m for pid in props.CLAIMED):
            deps(m, critical)
    bad = 0
    with ThreadPoolExecutor(8) as ex:
        for m, (ok, out) in zip(mods, ex.map(vlib.sany, mods)):
            if not ok:
                if m in critical:
                    bad += 1
                    print('SANY FAILED', m)
                    print(out[-1500:])
                else:
                    print('warning: module %s (not used by a claimed check) does not parse' % m)
    import codec
    cells = [{'cls': 'list', 'items': [{'k': 'ref', 'a': 2}, {'k': 'ref', 'a': 1}]},
             {'cls': 'tuple', 'items': [{'k': 'ref', 'a': 3}, {'k': 'int', 'i': 1}]},
             {'cls': 'odict', 'items': [[{'k': 'str', 's': 'a'}, {'k': 'ref', 'a': 2}]]}]
    h = codec.Heap(cells)
    if h.snapshot() != cells:
        bad += 1
        print('codec round trip failed', h.snapshot())
    print('setup: %d modules parsed (%d used by claimed checks), %d problems' % (len(mods), len(critical), bad))
    return 1 if bad else 0


if __name__ == '__main__':
    sys.exit(main())
