"""Audit hook for C19: records whether text derived from the CLI spec argument is compiled,
executed, or causes a planted side effect.  Used in-process by harness/c19.py (arm/disarm
around glom.cli.main) and in `python -m glom` children through c19_site/sitecustomize.py.

Events (in order):  ["compile", filename]  a source consisting of the spec text (or its repr,
                                            or `name = <text>`) is handed to the compiler
                                            (ast.parse / ast.literal_eval / compile / eval / exec)
                    ["exec", filename]     a code object compiled from such a source (same
                                            filename), or containing the planted token, is run
                    ["effect", event]      any audit event (open, os.system, os.mkdir,
                                            subprocess.Popen, ...) whose arguments mention the token
"""
import os
import re
import sys

STATE = {'armed': False, 'needles': (), 'token': None, 'files': set(), 'ast': False,
         'events': [], 'fd': None, 'installed': False}
_ASSIGN = re.compile(r'[A-Za-z_][A-Za-z_0-9]*\s*=')


def _emit(kind, what):
    STATE['events'].append([kind, what])
    fd = STATE['fd']
    if fd is not None:
        os.write(fd, ('%s\t%s\n' % (kind, what)).encode('utf-8', 'replace'))


def _is_spec_source(src, filename):
    """the compiled source is the spec text itself, its repr, `(text)` or `name = text`"""
    if isinstance(src, bytes):
        try:
            src = src.decode('utf-8')
        except UnicodeDecodeError:
            return False
    if not isinstance(src, str):
        return False
    if isinstance(filename, str) and os.path.isabs(filename):
        return False                      # a module / traceback source line, not the spec
    body = src.strip()
    for raw in STATE['needles']:
        n = raw.strip()
        if not n:                         # a blank spec text: compare unstripped
            if src == raw or (src.endswith(raw) and _ASSIGN.fullmatch(src[:-len(raw)].strip())):
                return True
            continue
        if body == n or body == '(' + n + ')':
            return True
        if body.endswith(n) and _ASSIGN.fullmatch(body[:-len(n)].strip()):
            return True
    return False


def _has_token(code, token, depth=0):
    for c in code.co_consts:
        if isinstance(c, str) and token in c:
            return True
        if isinstance(c, bytes) and token.encode() in c:
            return True
        if depth < 4 and hasattr(c, 'co_consts') and _has_token(c, token, depth + 1):
            return True
        if isinstance(c, (tuple, frozenset)) and any(isinstance(x, str) and token in x for x in c):
            return True
    return False


def hook(event, args):
    if not STATE['armed']:
        return
    if event == 'compile':
        src, filename = args[0], args[1]
        if isinstance(src, (str, bytes)):
            if _is_spec_source(src, filename):
                STATE['files'].add(filename)
                _emit('compile', str(filename))
        elif STATE['files']:
            STATE['ast'] = True          # an AST object is compiled after the spec text was parsed
        return
    if event == 'exec':
        code = args[0]
        fn = getattr(code, 'co_filename', None)
        if fn is None:
            return
        tok = STATE['token']
        if fn in STATE['files'] or (STATE['ast'] and not os.path.isabs(fn) and not fn.startswith('<frozen')) \
                or (tok and _has_token(code, tok)):
            _emit('exec', str(fn))
        return
    tok = STATE['token']
    if tok:
        for a in args:
            try:
                if isinstance(a, (str, bytes, os.PathLike)):
                    s = os.fsdecode(a)
                elif isinstance(a, (list, tuple)):
                    s = ' '.join(os.fsdecode(x) for x in a if isinstance(x, (str, bytes)))
                else:
                    continue
            except Exception:
                continue
            if tok in s:
                _emit('effect', event)
                return


def install():
    if not STATE['installed']:
        STATE['installed'] = True
        sys.addaudithook(hook)


def arm(spec_text, token, fd=None):
    needles = []
    if spec_text:
        needles = [spec_text, repr(spec_text)]
    STATE.update(needles=tuple(needles), token=token or None, files=set(), ast=False, events=[],
                 fd=fd, armed=True)


def disarm():
    STATE['armed'] = False
    return STATE['events']
