"""Shared binding code for C11 (assign) and C12 (delete): write-logging / faulting
containers, case -> real call, projection of what the library did, comparison with the
expectation of spec/GlomMutate.tla, random cases for the code -> spec direction."""
import glom
from glom import Path, T, S, Spec, Assign, Delete, PathAccessError
from glom.core import PathAssignError, UnregisteredTarget
from glom.mutation import PathDeleteError

import codec
import vlib



class _NoTraceback:
    """glom formats the Python traceback of every escaping error eagerly (GlomError._finalize,
    ~1 ms); C11 / C12 never look at message text, so the replay processes skip that formatting."""
    def __getattr__(self, name):
        import traceback
        return getattr(traceback, name)

    @staticmethod
    def format_exc(*a, **kw):
        return 'Traceback elided by the verification harness'


glom.core.traceback = _NoTraceback()

WLOG = []      # write / factory events of the current call
FAULT = {}     # id(container) -> "wfault" | "dfault"


CUR_REGISTRY = [None]   # tag of the registry whose 'assign' / 'delete' handler is running (None: no handler)


def _ev(o, op, key):
    e = {'ev': 'write', 'o': o, 'op': op, 'key': key, 'done': False, 'tag': CUR_REGISTRY[0]}
    WLOG.append(e)
    return e


class WDict(dict):
    __slots__ = ()

    def __setitem__(self, k, v):
        e = _ev(self, 'set', k)
        if FAULT.get(id(self)) == 'wfault':
            raise RuntimeError('injected __setitem__ fault')
        dict.__setitem__(self, k, v)
        e['done'] = True

    def __delitem__(self, k):
        e = _ev(self, 'del', k)
        if FAULT.get(id(self)) == 'dfault':
            raise RuntimeError('injected __delitem__ fault')
        dict.__delitem__(self, k)
        e['done'] = True


class WList(list):
    __slots__ = ()

    def __setitem__(self, k, v):
        e = _ev(self, 'set', k)
        if FAULT.get(id(self)) == 'wfault':
            raise RuntimeError('injected __setitem__ fault')
        list.__setitem__(self, k, v)
        e['done'] = True

    def __delitem__(self, k):
        e = _ev(self, 'del', k)
        if FAULT.get(id(self)) == 'dfault':
            raise RuntimeError('injected __delitem__ fault')
        list.__delitem__(self, k)
        e['done'] = True


class WTuple(tuple):
    __slots__ = ()


class WObj(codec.Obj):
    def __setattr__(self, name, v):
        e = _ev(self, 'set', name)
        if FAULT.get(id(self)) == 'wfault':
            raise RuntimeError('injected __setattr__ fault')
        object.__setattr__(self, name, v)
        e['done'] = True

    def __delattr__(self, name):
        e = _ev(self, 'del', name)
        if FAULT.get(id(self)) == 'dfault':
            raise RuntimeError('injected __delattr__ fault')
        object.__delattr__(self, name)
        e['done'] = True


class WPropObj(WObj):
    r = property(lambda self: 7)      # read-only property


class PropObj(codec.Obj):
    r = property(lambda self: 7)


WRITING = dict(codec.PLAIN, dict=WDict, list=WList, tuple=WTuple, obj=WObj)


# ---- realisation variants of the same abstract case ("nice" data is not the only data) ---------
from collections import OrderedDict as _OD, namedtuple as _namedtuple


class WODict(_OD):
    """write-logging OrderedDict (codec.Heap fills it so that its own order differs from the raw dict order)"""
    def __setitem__(self, k, v):
        e = _ev(self, 'set', k)
        if FAULT.get(id(self)) == 'wfault':
            raise RuntimeError('injected __setitem__ fault')
        _OD.__setitem__(self, k, v)
        e['done'] = True

    def __delitem__(self, k):
        e = _ev(self, 'del', k)
        if FAULT.get(id(self)) == 'dfault':
            raise RuntimeError('injected __delitem__ fault')
        _OD.__delitem__(self, k)
        e['done'] = True


class WSlotObj(object):
    """a slotted attribute object: no __dict__, attributes limited to its slots (flag "slots")"""
    __slots__ = ('a', 'b', 'x')

    def __setattr__(self, name, v):
        e = _ev(self, 'set', name)
        if FAULT.get(id(self)) == 'wfault':
            raise RuntimeError('injected __setattr__ fault')
        object.__setattr__(self, name, v)
        e['done'] = True

    def __delattr__(self, name):
        e = _ev(self, 'del', name)
        if FAULT.get(id(self)) == 'dfault':
            raise RuntimeError('injected __delattr__ fault')
        object.__delattr__(self, name)
        e['done'] = True


class SlotObj(object):
    __slots__ = ('a', 'b', 'x')


_NT = {}


class NTuple(tuple):
    """'tuple' cells as namedtuple instances: a tuple subclass whose constructor does not take one iterable"""
    __slots__ = ()

    def __new__(cls, items=()):
        items = tuple(items)
        nt = _NT.get(len(items))
        if nt is None:
            nt = _NT[len(items)] = _namedtuple('NT%d' % len(items), ['f%d' % i for i in range(len(items))])
        return nt(*items)


def _odd(cls, eq=None):
    """a subclass that is FALSY whatever it holds, passes __getitem__ / __iter__ / __len__ / __contains__
    through its own overrides and, optionally, has a hostile __eq__ ('true': equal to everything,
    'raise': comparing raises TypeError); identity hashing"""
    ns = {'__bool__': lambda self: False}
    if not issubclass(cls, codec.Obj):
        ns['__slots__'] = ()
        ns['__getitem__'] = lambda self, k: cls.__getitem__(self, k)
        ns['__iter__'] = lambda self: cls.__iter__(self)
        ns['__len__'] = lambda self: cls.__len__(self)
        ns['__contains__'] = lambda self, k: cls.__contains__(self, k)
    if eq == 'true':
        ns['__eq__'] = lambda self, other: True
        ns['__ne__'] = lambda self, other: False
        ns['__hash__'] = lambda self: id(self) >> 4
    elif eq == 'raise':
        def _boom(self, other):
            raise TypeError('hostile __eq__')
        ns['__eq__'] = _boom
        ns['__ne__'] = _boom
        ns['__hash__'] = lambda self: id(self) >> 4
    return type('Odd' + cls.__name__, (cls,), ns)


VARIANTS = {
    'falsy': dict(WRITING, dict=_odd(WDict), list=_odd(WList), tuple=_odd(WTuple), obj=_odd(WObj)),
    'eq-true': dict(WRITING, dict=_odd(WDict, 'true'), list=_odd(WList, 'true'), obj=_odd(WObj, 'true')),
    'eq-raise': dict(WRITING, dict=_odd(WDict, 'raise'), list=_odd(WList, 'raise'), obj=_odd(WObj, 'raise')),
    'odict': dict(WRITING, dict=WODict),
    'ntuple': dict(WRITING, tuple=NTuple),
}
VARIANT_ROTATION = ['falsy', 'ephemeral', 'eq-true', 'twice', 'odict', 'ntuple', 'falsy', 'eq-raise']


def variant_applies(variant, case):
    steps = case['steps'] + (case['val']['steps'] if case['kind'] == 'assign' else [])
    if variant == 'odict':      # an OrderedDict instance accepts attributes, which the abstract dict does not
        return any(c['cls'] == 'dict' for c in case['heap0']) and not any(st['op'] == '.' for st in steps) \
            and case['missing'] != 'sdict'
    if variant == 'ntuple':
        return any(c['cls'] == 'tuple' for c in case['heap0'])
    if variant in ('twice', 'ephemeral'):
        return not any(case['flags'])
    return True


# ---- registries: which registry's handler performs a write -----------------------------------
# The logging classes are registered, with handlers of the documented built-in behaviour (mapping
# key / sequence index / attribute) that record which registry they belong to, on the default
# registry (module-level glom / assign / delete) and on a Glommer of the harness.  A write event
# then says whether it was reached through the executing registry's handler ("seg"), through
# another registry's ("foreign") or directly by a T step ("t").
import operator as _op
from glom import Glommer
from glom.core import _get_sequence_item, _ObjStyleKeys
from glom.mutation import _set_sequence_item, _del_sequence_item


def _tagged(tag, fn):
    def handler(*a):
        prev = CUR_REGISTRY[0]
        CUR_REGISTRY[0] = tag
        try:
            return fn(*a)
        finally:
            CUR_REGISTRY[0] = prev
    return handler


def _register_logging_classes(register, tag):
    register(WDict, get=_op.getitem, keys=dict.keys,
             assign=_tagged(tag, _op.setitem), delete=_tagged(tag, _op.delitem))
    register(WList, get=_get_sequence_item,
             assign=_tagged(tag, _set_sequence_item), delete=_tagged(tag, _del_sequence_item))
    register(WObj, get=getattr, keys=_ObjStyleKeys.get_keys,
             assign=_tagged(tag, setattr), delete=_tagged(tag, delattr))
    register(WODict, get=_op.getitem, keys=_OD.keys,
             assign=_tagged(tag, _op.setitem), delete=_tagged(tag, _op.delitem))
    register(WSlotObj, get=getattr, assign=_tagged(tag, setattr), delete=_tagged(tag, delattr))


GLOMMER = Glommer()
_register_logging_classes(glom.register, 'default')
_register_logging_classes(GLOMMER.register, 'glommer')


def ephemeral_classes():
    """Fresh, short-lived target classes made with type() (subclasses of the logging classes, so
    the handlers registered above are their nearest registered types)."""
    return dict(WRITING,
                dict=type('EphDict', (WDict,), {'__slots__': ()}),
                list=type('EphList', (WList,), {'__slots__': ()}),
                obj=type('EphObj', (WObj,), {}))


def prime_and_drop(order):
    """History for the ephemeral route: classes of the given kinds are created with type(), used once
    as assign / get / delete targets through string segments, and dropped (del + gc.collect()), so
    that the classes made next may be allocated where a class of ANOTHER kind used to live."""
    import gc
    problems = []
    for kind in order:
        cls = ephemeral_classes()[kind]
        key = '0' if kind == 'list' else 'k'
        t = cls([0]) if kind == 'list' else cls()
        try:        # assign / read back / delete on a brand-new class: must simply work
            same = glom.assign(t, key, 1) is t
            got = glom.glom(t, key)
            glom.delete(t, key)
            left = len(t) if kind != 'obj' else len(vars(t))
            if not (same and got == 1 and left == 0):
                problems.append('%s: returned-same=%s read-back=%r entries-left=%d' % (kind, same, got, left))
        except Exception as e:
            problems.append('%s: %s' % (kind, exc_name(e)))
        del t, cls
    gc.collect(1)       # the classes were made a moment ago: the young generations suffice
    return problems


def build(case, logging, classes=None):
    """Real objects for the case's heap, faults installed."""
    classes = dict(classes or (WRITING if logging else codec.PLAIN))
    classes['sobj'] = WSlotObj if logging else SlotObj
    cells = [dict(c, cls='sobj') if f == 'slots' else dict(c) for c, f in zip(case['heap0'], case['flags'] + [''] * len(case['heap0']))]
    heap = codec.Heap(cells, classes)
    for c in heap.cells:
        if c['cls'] == 'sobj':
            c['cls'] = 'obj'
    heap.classes_used = classes
    heap.n0 = len(case['heap0'])
    heap.created = []
    FAULT.clear()
    for a, f in enumerate(case['flags'], 1):
        if f == 'prop':
            heap.objs[a].__class__ = WPropObj if logging else PropObj
        elif f == 'slots':
            pass
        elif f:
            if not logging:
                raise vlib.MachineryError('fault flags need the logging classes')
            FAULT[id(heap.objs[a])] = f
    return heap


def arg_py(a):
    k = a['k']
    if k == 'int':
        return a['i']
    if k == 'str':
        return a['s']
    if k == 'none':
        return None
    if k == 'bool':
        return a['b']
    raise ValueError(a)


def _tstep(t, op, a):
    if op == 'x':
        return t.__star__()
    if op == 'X':
        return t.__starstar__()
    return t[a] if op == '[' else getattr(t, a)


def _parts(steps):
    return [arg_py(s['arg']) if s['op'] == 'P' else _tstep(T, s['op'], arg_py(s['arg'])) for s in steps]


def has_star(steps):
    return any(s['op'] in 'xX' for s in steps)


def _merged(steps, root=None):
    ps, cur = [], root
    for s in steps:
        a = arg_py(s['arg'])
        if s['op'] == 'P':
            if cur is not None:
                ps.append(cur)
                cur = None
            ps.append(a)
        else:
            cur = _tstep(cur if cur is not None else T, s['op'], a)
    if cur is not None:
        ps.append(cur)
    return Path(*ps)


def _chain(steps, t):
    for s in steps:
        t = _tstep(t, s['op'], arg_py(s['arg']))
    return t


def spellings(steps):
    """Every way of writing the destination: (name, builder, s_rooted)."""
    out = []
    ops = [s['op'] for s in steps]
    args = [arg_py(s['arg']) for s in steps]
    if all(o in 'PxX' for o in ops) and all(o in 'xX' or (isinstance(a, str) and a and '.' not in a and a not in ('*', '**'))
                                           for o, a in zip(ops, args)):
        text = '.'.join('*' if o == 'x' else '**' if o == 'X' else a for o, a in zip(ops, args))
        out.append(('dotted', lambda: text, False))
    out.append(('Path', lambda: Path(*_parts(steps)), False))
    if any(o not in 'PxX' for o in ops) and any(o == 'P' for o in ops):
        out.append(('Path-merged', lambda: _merged(steps), False))
    if all(o != 'P' for o in ops):
        out.append(('T', lambda: _chain(steps, T), False))
        out.append(('S-T', lambda: _chain(steps, S['x']), True))
    else:
        out.append(('S-Path', lambda: Path(S['x'], *_parts(steps)), True))
    return out


def build_literal(heap, vs):
    """the literal container graph of a value spec: exact dicts / lists (argument mode rebuilds
    exactly those), references between its cells, scalar and T leaves; returns the list of objects"""
    objs = [dict() if c['cls'] == 'dict' else list() for c in vs['cells']]

    def leaf(x):
        if x['k'] == 'vref':
            return objs[x['a'] - 1]
        if x['k'] == 't':
            return _chain(x['steps'], T)
        return heap.val(x)
    for o, c in zip(objs, vs['cells']):
        if c['cls'] == 'dict':
            for k, v in c['items']:
                o[heap.val(k)] = leaf(v)
        else:
            o.extend(leaf(v) for v in c['items'])
    return objs


def literal_shape(objs):
    """structure of the literal's objects with identities (to see that the literal is not touched)"""
    ids = {id(o): i for i, o in enumerate(objs)}

    def d(x):
        return ('ref', ids[id(x)]) if id(x) in ids else ('T', repr(x)) if isinstance(x, glom.core.TType) else ('v', repr(x))
    return [[(repr(k), d(v)) for k, v in o.items()] if isinstance(o, dict) else [d(v) for v in o] for o in objs]


def mk_val(heap, vs):
    if vs['k'] == 'lit':
        if vs['v']['k'] == 'vref':
            heap.literal = build_literal(heap, vs)
            heap.literal_shape = literal_shape(heap.literal)
            heap.literal_root = heap.literal[vs['v']['a'] - 1]
            return heap.literal_root
        return heap.val(vs['v'])
    if vs['k'] == 'spec':
        return Spec(Path(*_parts(vs['steps'])))
    return _chain(vs['steps'], T)


def exc_name(e):
    if isinstance(e, PathDeleteError):
        return 'PathDeleteError'
    if isinstance(e, PathAssignError):
        return 'PathAssignError'
    if isinstance(e, PathAccessError):
        return 'PathAccessError'
    if isinstance(e, UnregisteredTarget):
        return 'UnregisteredTarget'
    return codec.exc_class_name(e)


def _attrs(o):
    """attributes of an attribute object in order (instance dict, or the slots that are set)"""
    if hasattr(o, '__dict__'):
        return list(vars(o).items())
    return [(n, getattr(o, n)) for n in type(o).__slots__ if hasattr(o, n)]


def _children(o):
    if isinstance(o, dict):
        return [v for _, v in (_OD.items(o) if isinstance(o, _OD) else dict.items(o))]
    if isinstance(o, list):
        return list(list.__iter__(o))
    if isinstance(o, tuple):
        return list(tuple.__iter__(o))
    if isinstance(o, (codec.Obj, WSlotObj, SlotObj)):
        return [v for _, v in _attrs(o)]
    return []


def snapshot(heap):
    """codec.Heap.snapshot, also for slotted objects"""
    out = []
    for a in range(1, len(heap.cells) + 1):
        o = heap.objs[a]
        if isinstance(o, (WSlotObj, SlotObj)):
            items = [[heap.project(k), heap.project(v)] for k, v in _attrs(o)]
        elif isinstance(o, dict):
            items = [[heap.project(k), heap.project(v)] for k, v in (_OD.items(o) if isinstance(o, _OD) else dict.items(o))]
        elif isinstance(o, (set, frozenset)):
            items = sorted((heap.project(v) for v in o), key=repr)
        elif isinstance(o, (list, tuple)):
            items = [heap.project(v) for v in (list.__iter__(o) if isinstance(o, list) else tuple.__iter__(o))]
        else:
            items = [[heap.project(k), heap.project(v)] for k, v in vars(o).items()]
        out.append({'cls': heap.cells[a - 1]['cls'], 'items': items})
    return out


def _number_created(heap, cls, reachable_only=False):
    """Give the factory-made objects addresses n0+1.. in the order in which they are met when
    walking the pre-existing cells (independent of the order the library made them in);
    unreachable ones follow in creation order (or are left out: reachable_only)."""
    created = {id(o): o for o in heap.created}
    literal = {id(o) for o in getattr(heap, 'literal', [])}
    # containers rebuilt from a literal value (argument mode): unknown exact dicts / lists reachable from
    # the pre-existing cells, numbered first, in depth-first order of first visit
    rebuilt, met = [], set()

    def find(o):
        for ch in _children(o):
            if id(ch) in met:
                continue
            known = id(ch) in heap.ids
            if not known and id(ch) not in created:
                if type(ch) not in (dict, list) or id(ch) in literal:
                    continue
                rebuilt.append(ch)
            met.add(id(ch))
            if not known:
                find(ch)
    for a in range(1, heap.n0 + 1):
        find(heap.objs[a])
    for o in rebuilt:
        heap.cells.append({'cls': 'dict' if type(o) is dict else 'list', 'items': []})
        a = len(heap.cells)
        heap.objs[a] = o
        heap.ids[id(o)] = a
    if not rebuilt and getattr(heap, 'literal_root', None) is not None:
        # the rebuilt value was stored nowhere (failed call, wildcard without a match): its cells are
        # garbage the harness cannot see; reserve their addresses so that later cells are numbered as
        # in the specification (only the pre-existing cells are compared in that case)
        seen_l, todo = [], [heap.literal_root]
        while todo:
            o = todo.pop(0)
            if id(o) in [id(x) for x in seen_l] or type(o) not in (dict, list):
                continue
            seen_l.append(o)
            todo = [ch for ch in _children(o)] + todo
        for o in seen_l:
            heap.cells.append({'cls': 'dict' if type(o) is dict else 'list', 'items': []})
            heap.objs[len(heap.cells)] = type(o)()
    order = []
    seen = set()

    def walk(o):
        for ch in _children(o):
            if id(ch) in seen:
                continue
            if id(ch) in created:
                seen.add(id(ch))
                order.append(ch)
                walk(ch)
            elif type(ch) in (dict, list) and id(ch) in heap.ids and heap.ids[id(ch)] > heap.n0:
                seen.add(id(ch))
                walk(ch)
    for a in range(1, heap.n0 + 1):
        walk(heap.objs[a])
    if not reachable_only:
        for o in heap.created:
            if id(o) not in seen:
                seen.add(id(o))
                order.append(o)
                walk(o)
    for o in order:
        heap.cells.append({'cls': cls, 'items': []})
        a = len(heap.cells)
        heap.objs[a] = o
        heap.ids[id(o)] = a


def _observe(heap, case, ok, cls, res, events, nfac, reachable_only=False, route='default'):
    """project what one evaluation did: outcome, returned object, final heap, write log"""
    obs = {'ok': ok, 'cls': cls, 'v': {'k': 'none'}}
    _number_created(heap, 'dict' if case['missing'] == 'sdict' else case['missing'], reachable_only)
    if ok:
        obs['v'] = heap.project(res)
    obs['heap'] = snapshot(heap)
    log = []
    for e in events:
        if e['ev'] == 'factory':
            log.append({'ev': 'factory', 'a': e['n'], 'op': 'call', 'key': {'k': 'none'}, 'done': True, 'via': ''})
        else:
            via = 't' if e['tag'] is None else 'seg' if e['tag'] == route else 'foreign'
            log.append({'ev': 'write', 'a': heap.ids.get(id(e['o']), 0), 'op': e['op'],
                        'key': heap.project(e['key']), 'done': e['done'], 'via': via})
    obs['log'] = log
    obs['nfac'] = nfac
    if getattr(heap, 'literal', None) is not None:
        obs['literal_untouched'] = literal_shape(heap.literal) == heap.literal_shape
    return obs


def _mutate_result(heap):
    """between two evaluations of one spec object: the first target, and every container the first
    evaluation made, get an extra entry (a later evaluation must not see or hand out any of them)"""
    objs = [heap.objs[a] for a in sorted(heap.objs)]
    for o in objs:
        try:
            if isinstance(o, dict):
                (_OD if isinstance(o, _OD) else dict).__setitem__(o, '__mutated__', 1)
            elif isinstance(o, list):
                list.append(o, '__mutated__')
            elif isinstance(o, codec.Obj):
                object.__setattr__(o, '__mutated__', 1)
        except Exception:
            pass


def run_case(case, spelling, logging, route='default', ephemeral=False, variant=None):
    """Perform the case on real objects; project every observable C11 / C12 name.
    route 'glommer': the call is made through the harness's Glommer (its own registry) instead of the
    module-level functions.  ephemeral: the target classes are made with type() for this one call,
    after classes of other kinds were created, used and garbage-collected.  variant: another
    realisation of the same abstract case (VARIANTS: falsy containers with pass-through overrides,
    hostile __eq__, reordered OrderedDicts, namedtuples); variant 'twice': ONE spec object is evaluated
    on the target, the target and everything made are mutated, and the same spec object is evaluated on
    a fresh copy of the target -- that second evaluation is what is observed."""
    name, mk, s_rooted = spelling
    classes, primer = None, []
    if isinstance(ephemeral, str):          # the variant name travels in the 'ephemeral' field of rows / replays
        variant, ephemeral = (None, True) if ephemeral == 'ephemeral' else (ephemeral, False)
    if ephemeral:
        kinds = sorted({c['cls'] for c in case['heap0']} & {'dict', 'list', 'obj'})
        primer = prime_and_drop(kinds[1:] + kinds[:1] if len(kinds) > 1 else ['obj' if kinds == ['dict'] else 'dict'])
        classes = ephemeral_classes()
    elif variant in VARIANTS:
        classes = VARIANTS[variant]
    do_glom = GLOMMER.glom if route == 'glommer' else glom.glom
    rounds = 2 if variant == 'twice' else 1
    ctx = {'heap': None, 'n': 0, 'shared': None}
    path = mk()
    spec = None
    first = None
    for rnd in range(rounds):
        heap = build(case, logging, classes)
        if first is not None:
            for attr in ('literal', 'literal_shape', 'literal_root'):
                if hasattr(first, attr):
                    setattr(heap, attr, getattr(first, attr))
        ctx.update(heap=heap, n=0, shared=None)
        target = heap.val(case['root'])
        kw = {'scope': {'x': target}} if s_rooted else {}
        del WLOG[:]
        if spec is None:
            if case['kind'] == 'assign':
                factory = None
                if case['missing'] != 'none':
                    fkind = 'dict' if case['missing'] == 'sdict' else case['missing']

                    def factory():
                        ctx['n'] += 1
                        WLOG.append({'ev': 'factory', 'n': ctx['n']})
                        if ctx['n'] == case['facfail']:
                            raise RuntimeError('injected factory fault')
                        if case['missing'] == 'sdict' and ctx['shared'] is not None:
                            return ctx['shared']                # one shared container per evaluation
                        o = ctx['heap'].classes_used[fkind]()
                        ctx['shared'] = o
                        ctx['heap'].created.append(o)
                        return o
                val = mk_val(heap, case['val'])
                if name == 'dotted' and route == 'default' and rounds == 1:
                    spec = ('assign', val, factory)
                else:
                    spec = Assign(path, val, missing=factory)
            else:
                if name == 'dotted' and route == 'default' and rounds == 1:
                    spec = ('delete',)
                else:
                    spec = Delete(path, ignore_missing=case['ignore'])
        ok, cls, res = True, '', None
        try:
            if isinstance(spec, tuple):
                res = glom.assign(target, path, spec[1], missing=spec[2]) if spec[0] == 'assign' \
                    else glom.delete(target, path, ignore_missing=case['ignore'])
            else:
                res = do_glom(target, spec, **kw)
        except Exception as e:
            ok, cls = False, exc_name(e)
        events = list(WLOG)
        del WLOG[:]
        if rnd < rounds - 1:
            first = heap
            _number_created(heap, 'dict' if case['missing'] == 'sdict' else case['missing'])
            _mutate_result(heap)
    obs = _observe(heap, case, ok, cls, res, events, ctx['n'], route=route)
    if primer:
        obs['primer_problems'] = primer
    FAULT.clear()
    return obs


def run_reuse(case1, case2, spelling, logging, mode):
    """ONE Assign spec object evaluated on two targets (same path / value / factory, no faults).
    mode 'seq': two glom() calls in sequence; mode 'list': one call glom([t1, t2], [spec]).
    Returns (obs1, obs2); in list mode both carry the outcome of the single call, the write log is
    not attributed (empty) and only reachable factory-made objects are numbered."""
    name, mk, s_rooted = spelling
    heaps = [build(case1, logging), build(case2, logging)]
    targets = [heaps[0].val(case1['root']), heaps[1].val(case2['root'])]
    fcls = (WRITING if logging else codec.PLAIN).get(case1['missing'], dict)
    ctx = {'n': 0, 'heaps': [heaps[0]]}

    def factory():
        ctx['n'] += 1
        WLOG.append({'ev': 'factory', 'n': ctx['n']})
        o = fcls()
        for h in ctx['heaps']:
            h.created.append(o)
        return o
    if case1['kind'] == 'delete':
        spec = Delete(mk(), ignore_missing=case1['ignore'])
    else:
        spec = Assign(mk(), mk_val(heaps[0], case1['val']), missing=factory)
    for attr in ('literal', 'literal_shape', 'literal_root'):       # the one literal value serves both evaluations
        if hasattr(heaps[0], attr):
            setattr(heaps[1], attr, getattr(heaps[0], attr))
    out = []
    if mode == 'seq':
        for h, t, case in zip(heaps, targets, (case1, case2)):
            ctx['n'], ctx['heaps'] = 0, [h]
            del WLOG[:]
            ok, cls, res = True, '', None
            try:
                res = glom.glom(t, spec, **({'scope': {'x': t}} if s_rooted else {}))
            except Exception as e:
                ok, cls = False, exc_name(e)
            events = list(WLOG)
            del WLOG[:]
            out.append(_observe(h, case, ok, cls, res, events, ctx['n']))
            _mutate_result(h)       # the first target (and what was made for it) changes before the spec is used again
    else:
        ctx['heaps'] = heaps
        del WLOG[:]
        ok, cls, res = True, '', None
        try:
            res = glom.glom(targets, [spec])
            if not (isinstance(res, list) and len(res) == 2):
                ok, cls = False, 'bad-list-result'
        except Exception as e:
            ok, cls = False, exc_name(e)
        del WLOG[:]
        for i, (h, case) in enumerate(zip(heaps, (case1, case2))):
            out.append(_observe(h, case, ok, cls, res[i] if ok else None, [], 0, reachable_only=True))
    return out[0], out[1]


def _live(h, n0):
    """Live(c, h) of GlomMutate.tla: new cells that nothing reachable from the pre-existing cells refers to
    are garbage and compare equal"""
    def refs(c):
        for it in c['items']:
            x = it[1] if c['cls'] in ('dict', 'odict', 'obj') else it
            if isinstance(x, dict) and x.get('k') == 'ref':
                yield x['a']
    seen = set(range(1, n0 + 1))
    todo = list(seen)
    while todo:
        for b in refs(h[todo.pop() - 1]):
            if b not in seen and 1 <= b <= len(h):
                seen.add(b)
                todo.append(b)
    return [c if a in seen else {'cls': 'garbage', 'items': []} for a, c in enumerate(h, 1)]


def conform_clause(case, exp, obs):
    """ConformClause of GlomMutate.tla on an observation (same order of clauses)."""
    n0 = len(case['heap0'])
    h = obs['heap']
    if obs.get('primer_problems'):
        return 'history-dependent: assign / read / delete on a brand-new class failed (%s)' % obs['primer_problems'][0]
    if obs.get('literal_untouched') is False:
        return 'literal-value-mutated'
    if exp['err'] == 'unspecified':
        return ''
    if len(h) < n0:
        return 'heap-size'
    if exp['lenient']:
        if h[:n0] != case['heap0']:
            return 'heap-changed'
        if obs['ok'] and obs['v'] != exp['v']:
            return 'returned'
        return ''
    if obs['ok'] != exp['ok']:
        return 'unexpected-error' if exp['ok'] else 'no-error'
    if exp['ok']:
        if obs['v'] != exp['v']:
            return 'returned'
        if _live(h, n0) != _live(exp['heap'], n0):
            return 'heap-effect'
        return ''
    if h[:n0] != exp['heap'][:n0]:      # exp.heap = heap0 on wildcard-free paths
        return 'not-atomic'
    if exp['err'] != 'any' and obs['cls'] != exp['err']:
        return 'error-class'
    return ''


def case_of(st):
    return st['case']


def replay_reuse(st, out):
    """spec -> code for a second-evaluation state: the spec object of prev.case is evaluated on
    prev.case's target and then on case's target (sequentially, and through a list spec when both
    evaluations are expected to succeed); each evaluation is held against its own expectation."""
    case1, exp1, case2, exp2 = st['prev']['case'], st['prev']['exp'], st['case'], st['exp']
    for logging in (False, True):
        for sp in spellings(case2['steps']):
            modes = ['seq']
            if exp1['ok'] and exp2['ok'] and not sp[2]:
                modes.append('list')
            for mode in modes:
                obs1, obs2 = run_reuse(case1, case2, sp, logging, mode)
                out['n'] += 2
                for which, (case, exp, obs) in enumerate(((case1, exp1, obs1), (case2, exp2, obs2)), 1):
                    clause = conform_clause(case, exp, obs)
                    if clause:
                        info = dict(case=case, exp=exp, obs=obs, spelling=sp[0], logging=logging, clause=clause,
                                    reuse=dict(mode=mode, which=which, first=case1, second=case2))
                        out['bad'].append(dict(why='%s [%s%s, spec object reused: %s evaluation %d]'
                                               % (clause, sp[0], ',logging' if logging else '', mode, which), case=info))
                if mode == 'seq' and logging and obs2['log'] != st['log'] and not conform_clause(case2, exp2, obs2):
                    out['log_rows'].append(dict(case=case2, obs=obs2, spelling=sp[0]))


def replay_state(st, out, matcher_info=None):
    """spec -> code for one terminal TLC state: every spelling, plain and logging classes."""
    if st.get('round') == 2:
        return replay_reuse(st, out)
    case, exp = st['case'], st['exp']
    flagged = any(f in ('wfault', 'dfault') for f in case['flags'])
    for logging in (False, True):
        if flagged and not logging:
            continue
        routes = [('default', False)]
        if logging:
            # through a Glommer with its own registry: every case that creates containers or whose final
            # segment is handled by a registered handler of a delete
            if (case['kind'] == 'assign' and case['missing'] != 'none') or \
                    (case['kind'] == 'delete' and case['steps'][-1]['op'] == 'P' and not case['ignore']):
                routes.append(('glommer', False))
            # one more realisation of the same abstract case, in rotation: falsy containers with pass-through
            # overrides, classes made with type() after others were collected, hostile __eq__, the spec
            # object evaluated twice with a mutation in between, reordered OrderedDicts, namedtuples
            out['seq'] = out.get('seq', 0) + 1
            variant = VARIANT_ROTATION[out['seq'] % len(VARIANT_ROTATION)]
            if not variant_applies(variant, case):
                variant = 'falsy'
            routes.append(('default', variant))
        for sp, (route, eph) in ((sp, r) for r in routes for sp in spellings(case['steps'])):
            if eph and sp[0] not in ('Path', 'T'):
                continue
            if route == 'glommer' and sp[0] == 'Path-merged':
                continue
            if not logging and (sp[2] or sp[0] == 'Path-merged'):
                continue        # plain builtins: the S-rooted and merged spellings are replayed on the logging classes only
            if route == 'glommer' and sp[2]:
                continue        # Glommer.glom() supplies the scope itself: no S-rooted spelling
            try:
                obs = run_case(case, sp, logging, route=route, ephemeral=eph)
            except vlib.MachineryError:
                raise
            out['n'] += 1
            clause = conform_clause(case, exp, obs)
            how = sp[0] + (',logging' if logging else '') + (',via Glommer' if route == 'glommer' else '') \
                + (',variant ' + eph if eph else '')
            info = dict(case=case, exp=exp, obs=obs, spelling=sp[0], logging=logging, clause=clause, route=route,
                        ephemeral=eph, model=dict(out=st['out'], log=st['log']))
            vkey = ('route:' + route) if not eph else 'route:' + eph
            out['vac'][vkey] = out['vac'].get(vkey, 0) + 1
            if clause:
                out['bad'].append(dict(why='%s [%s]' % (clause, how), case=info))
                continue
            # mechanism level (drift, not violation): escaping class, write log
            if not obs['ok'] and not st['out']['ok'] and obs['cls'] != st['out']['mech']:
                out['drift_cls'] += 1
                if len(out['drift_samples']) < 3:
                    out['drift_samples'].append(dict(steps=case['steps'], spelling=sp[0], model=st['out']['mech'], observed=obs['cls']))
            if logging and obs['log'] != st['log']:
                # the law on the log is decided by TLC (Trace module) on the observed log
                out['log_rows'].append(dict(case=case, obs=obs, spelling=sp[0], route=route, ephemeral=eph))


EPHEMERAL_EVERY = 12


def new_out():
    return dict(n=0, cases=0, nontrivial=0, bad=[], samples=[], drift_cls=0, drift_samples=[], log_rows=[], vac={})


def _branches(st):
    """which branches of the machine the behaviour of this terminal state went through"""
    case, log, n0 = st['case'], st['log'], len(st['case']['heap0'])
    keys = ['ok' if st['out']['ok'] else 'error:' + st['exp']['err']]
    if len(case['steps']) > 1:
        keys.append('fetch-parent')
    if any(e['ev'] == 'factory' for e in log):
        keys.append('factory-call')
    if any(e['ev'] == 'write' and e['a'] > n0 for e in log):
        keys.append('build-tail')
    if any(e['ev'] == 'write' and e['a'] <= n0 and e['done'] and e['op'] == 'set' for e in log):
        keys.append('store')
    if any(e['ev'] == 'write' and e['done'] and e['op'] == 'del' for e in log):
        keys.append('del')
    if any(e['ev'] == 'write' and not e['done'] for e in log):
        keys.append('failed-write')
    if any(case['flags']):
        keys.append('fault-flag')
    if st['exp']['lenient']:
        keys.append('lenient')
    if has_star(case['steps']):
        keys.append('wildcard')
    if st.get('round') == 2:
        b1 = st['prev']['exp']['ok'] and len(st['prev']['exp']['heap']) - len(st['prev']['case']['heap0'])
        b2 = st['exp']['ok'] and len(st['exp']['heap']) - n0
        if b1 and b2 and b1 != b2:
            keys.append('reuse-shallower-then-deeper' if b1 > b2 else 'reuse-deeper-then-shallower')
    return keys


def worker(states):
    out = new_out()
    for st in states:
        if st.get('pc') != 'done':
            continue
        out['cases'] += 1
        case = st['case']
        # non-trivial: the parent exists or is created, i.e. a write is attempted or a tail is built
        if st['log'] or st['out']['ok']:
            out['nontrivial'] += 1
        for key in _branches(st):
            out['vac'][key] = out['vac'].get(key, 0) + 1
        if len(out['samples']) < 1 and st['log'] and len(case['steps']) >= 2:
            out['samples'].append(dict(case=case, exp=st['exp'], out=st['out'], log=st['log']))
        try:
            replay_state(st, out)
        except Exception as e:       # never let an unpicklable exception kill a pool worker
            import traceback as _tb
            out.setdefault('errors', []).append('%r\n%s' % (e, _tb.format_exc()[-1500:]))
    return out


# ---- code -> spec: random cases --------------------------------------------------------
KEYS = ['a', 'b', 'c', '0', '1']
STRS = ['', 's', 'uv']


def _sv(x):
    if isinstance(x, str):
        return {'k': 'str', 's': x}
    if x is None:
        return {'k': 'none'}
    return {'k': 'int', 'i': x}


def rand_value(rng, n, a, cls, imm):
    if rng.random() < 0.55 and n > 1 and cls not in ('set', 'frozenset'):
        if cls == 'tuple':
            cand = list(range(a + 1, n + 1))
        else:
            cand = [b for b in range(1, n + 1) if not imm[b] or b > a]
        if cand:
            return {'k': 'ref', 'a': rng.choice(cand)}
    r = rng.random()
    if r < 0.3:
        return {'k': 'none'}
    if r < 0.6:
        return {'k': 'int', 'i': rng.randint(-3, 9)}
    return {'k': 'str', 's': rng.choice(STRS)}


def rand_heap(rng):
    n = rng.randint(1, 10)
    classes = [None] + [rng.choice(['dict', 'dict', 'dict', 'list', 'list', 'tuple', 'obj', 'obj', 'set', 'frozenset'])
                        for _ in range(n)]
    classes[1] = rng.choice(['dict', 'dict', 'list', 'obj', 'tuple'])
    imm = [False] + [c in ('tuple', 'frozenset') for c in classes[1:]]
    cells = []
    for a in range(1, n + 1):
        cls = classes[a]
        m = rng.randint(0, 3)
        if cls == 'dict':
            keys = rng.sample(KEYS, m) if rng.random() < 0.7 else list(range(m))
            items = [[_sv(k), rand_value(rng, n, a, cls, imm)] for k in keys]
        elif cls == 'obj':
            items = [[_sv(k), rand_value(rng, n, a, cls, imm)] for k in rng.sample(KEYS, m)]
        elif cls in ('set', 'frozenset'):
            items = [{'k': 'int', 'i': v} for v in sorted({rng.randint(0, 5) for _ in range(m)})]
        else:
            items = [rand_value(rng, n, a, cls, imm) for _ in range(m)]
        cells.append({'cls': cls, 'items': items})
    return cells


def rand_step(rng, cells, cur, valid):
    if valid and cur is not None and cur['k'] == 'ref':
        c = cells[cur['a'] - 1]
        if c['items'] and c['cls'] == 'dict':
            return {'op': rng.choice(['P', '[']), 'arg': rng.choice(c['items'])[0]}
        if c['items'] and c['cls'] == 'obj':
            return {'op': rng.choice(['P', '.']), 'arg': rng.choice(c['items'])[0]}
        if c['items'] and c['cls'] in ('list', 'tuple'):
            n = len(c['items'])
            i = rng.randint(-n, n - 1)
            if rng.random() < 0.25:         # boundaries: -len-1, -len, len-1, len, len+1 (some of them invalid)
                i = rng.choice([-n - 1, -n, n - 1, n, n + 1])
            if rng.random() < 0.5:
                return {'op': 'P', 'arg': _sv(str(i)) if rng.random() < 0.7 else _sv(i)}
            return {'op': '[', 'arg': _sv(i)}
    op = rng.choice(['P', 'P', '[', '.'])
    if op == '.':
        return {'op': op, 'arg': _sv(rng.choice(KEYS + ['x', 'y']))}
    return {'op': op, 'arg': _sv(rng.choice(KEYS + ['x', 'y', '', '-1', '5', 0, 1, -1, 2, -4]))}


def abstract_step(cells, cur, st):
    if cur is None or cur['k'] != 'ref':
        return None
    c = cells[cur['a'] - 1]
    a = st['arg']
    if c['cls'] in ('dict', 'obj'):
        if c['cls'] == 'dict' and st['op'] == '.':
            return None
        if c['cls'] == 'obj' and st['op'] == '[':
            return None
        for k, v in c['items']:
            if k == a:
                return v
        return None
    if c['cls'] in ('list', 'tuple') and st['op'] != '.':
        try:
            i = int(a['s']) if a['k'] == 'str' and st['op'] == 'P' else a['i']
            return c['items'][i]
        except Exception:
            return None
    return None


def rand_steps(rng, cells, root, lo, hi, p_valid=0.85, p_star=0.0):
    steps, cur = [], root
    n = rng.randint(lo, hi)
    for j in range(n):
        if j < n - 1 and rng.random() < p_star and cur is not None and cur['k'] == 'ref' \
                and cells[cur['a'] - 1]['cls'] in ('dict', 'list', 'tuple', 'obj') and cells[cur['a'] - 1]['items']:
            c = cells[cur['a'] - 1]
            deep = rng.random() < 0.35
            steps.append({'op': 'X' if deep else 'x', 'arg': {'k': 'none'}})
            kids = [it[1] if c['cls'] in ('dict', 'obj') else it for it in c['items']]
            cur = rng.choice(kids + [cur]) if deep else rng.choice(kids)
            continue
        if j < n - 1 and j > 0 and cur is None and rng.random() < p_star / 2:
            steps.append({'op': rng.choice('xX'), 'arg': {'k': 'none'}})     # a wildcard after an absent segment
            continue
        st = rand_step(rng, cells, cur, valid=rng.random() < p_valid)
        steps.append(st)
        cur = abstract_step(cells, cur, st)
    return steps


def _vr(a):
    return {'k': 'vref', 'a': a}


def rand_literal(rng):
    """a random literal container value: 1-4 exact dicts / lists referring to each other freely
    (aliasing, cycles, self-reference), scalar and T leaves"""
    n = rng.randint(1, 4)
    cells = []
    for a in range(1, n + 1):
        cls = rng.choice(['list', 'list', 'dict'])
        vals = []
        for _ in range(rng.randint(0, 3)):
            r = rng.random()
            if r < 0.55:
                vals.append(_vr(rng.randint(1, n)))
            elif r < 0.65:
                vals.append({'k': 't', 'steps': []})
            else:
                vals.append(rng.choice([_sv(0), _sv(1), _sv('s'), _sv(None)]))
        if cls == 'dict':
            cells.append({'cls': cls, 'items': [[_sv(k), v] for k, v in zip(['p', 'q', 'r2'], vals)]})
        else:
            cells.append({'cls': cls, 'items': vals})
    return {'k': 'lit', 'v': _vr(1), 'steps': [], 'cells': cells}


def rand_case(rng, kind):
    cells = rand_heap(rng)
    root = {'k': 'ref', 'a': 1}
    steps = rand_steps(rng, cells, root, 1, 6, p_star=rng.choice([0.0, 0.0, 0.0, 0.3]))
    flags = [''] * len(cells)
    r = rng.random()
    if r < 0.25:
        cand = [a for a, c in enumerate(cells, 1) if c['cls'] in ('dict', 'list', 'obj')]
        if cand:
            a = rng.choice(cand)
            opts = ['wfault' if kind == 'assign' else 'dfault']
            if cells[a - 1]['cls'] == 'obj' and not any(k == _sv('r') for k, _ in cells[a - 1]['items']):
                opts.append('prop')
            if cells[a - 1]['cls'] == 'obj' and not has_star(steps) \
                    and [k.get('s') for k, _ in cells[a - 1]['items']] in ([], ['a'], ['b'], ['a', 'b']):
                opts.append('slots')
            flags[a - 1] = rng.choice(opts)
    if rng.random() < 0.1:
        steps[-1] = {'op': rng.choice(['.', 'P']), 'arg': _sv('r')}
    case = dict(kind=kind, heap0=cells, flags=flags, root=root, steps=steps,
                val={'k': 'lit', 'v': {'k': 'int', 'i': 9}, 'steps': []}, missing='none', facfail=0, ignore=False)
    if kind == 'assign':
        r = rng.random()
        if r < 0.25:
            case['val'] = {'k': rng.choice(['spec', 't']), 'v': {'k': 'none'}, 'steps': []}
            vsteps = rand_steps(rng, cells, root, 0 if case['val']['k'] == 't' else 1, 3, 0.95)
            if case['val']['k'] == 't':
                vsteps = [s for s in vsteps if s['op'] != 'P']
            case['val']['steps'] = vsteps
        elif r < 0.4:
            case['val']['v'] = rng.choice([_sv('s'), _sv(None), _sv(0), _sv(''), {'k': 'bool', 'b': False}])
        elif r < 0.55:
            case['val'] = rand_literal(rng)
        if rng.random() < 0.5:
            case['missing'] = rng.choice(['dict', 'dict', 'obj', 'list', 'sdict'])
            if has_star(steps) and case['missing'] == 'sdict':
                case['missing'] = 'dict'

            case['facfail'] = rng.choice([0, 0, 0, 1, 2, 3])
    else:
        case['ignore'] = rng.random() < 0.5
    return case


def pruned_variant(rng, case):
    """A second target for the same spec: a copy of the heap in which one entry on the existing
    prefix of the destination path is removed, so that the prefix stops existing earlier."""
    import copy
    cells, cur, spots = case['heap0'], case['root'], []
    for i, st in enumerate(case['steps'][:-1]):
        nxt = abstract_step(cells, cur, st)
        if nxt is None:
            break
        if cells[cur['a'] - 1]['cls'] in ('dict', 'obj'):
            spots.append((cur['a'], st['arg']))
        cur = nxt
    if not spots:
        return None
    a, key = rng.choice(spots)
    c2 = copy.deepcopy(case)
    c2['heap0'][a - 1]['items'] = [it for it in c2['heap0'][a - 1]['items'] if it[0] != key]
    return c2


def record_rows(rng, n, kind):
    """Random cases run on the logging classes in a random spelling: rows for Trace_C11/12.
    Some assign cases with missing= are run with ONE spec object on two targets whose prefix stops
    existing at different segments (both orders); each evaluation is a row of its own."""
    rows = []
    while len(rows) < n:
        case = rand_case(rng, kind)
        sps = spellings(case['steps'])
        sp = rng.choice(sps)
        if ((kind == 'assign' and case['missing'] not in ('none', 'sdict') and case['facfail'] == 0 and case['val']['k'] == 'lit'
             and rng.random() < 0.6) or (kind == 'delete' and rng.random() < 0.15)) and not any(case['flags']):
            c2 = pruned_variant(rng, case)
            if c2 is not None:
                pair = [case, c2] if rng.random() < 0.5 else [c2, case]
                o1, o2 = run_reuse(pair[0], pair[1], sp, True, 'seq')
                rows.append(dict(case=pair[0], obs=o1, spelling=sp[0], reuse='first'))
                rows.append(dict(case=pair[1], obs=o2, spelling=sp[0], reuse='second'))
                continue
        route = 'glommer' if rng.random() < 0.3 and not sp[2] else 'default'
        eph = False
        if route == 'default' and rng.random() < 0.3:
            eph = rng.choice(VARIANT_ROTATION)
            if not variant_applies(eph, case):
                eph = 'falsy'
        obs = run_case(case, sp, True, route=route, ephemeral=eph)
        rows.append(dict(case=case, obs=obs, spelling=sp[0], route=route, ephemeral=eph))
    return rows[:n]


# ---- driver shared by c11.py / c12.py ---------------------------------------------------
import json as _json
import random as _random
import time as _time


class Driver:
    """prop / kind / MC module / Trace module / need (actions that must be covered) /
    match (known-finding matcher for replay cases) / match_rows (for recorded rows)"""

    def __init__(self, prop, kind, mc, trace, need, match, match_rows, mutants, mutant_universe,
                 coverage_universe=None):
        self.prop, self.kind, self.mc, self.trace, self.need = prop, kind, mc, trace, need
        self.match, self.match_rows = match, match_rows
        self.mutants, self.mutant_universe = mutants, mutant_universe
        self.coverage_universe = coverage_universe or mutant_universe
        self.branches = {}
        self._t = None

    def lap(self, check, label):
        now = _time.time()
        if self._t is not None:
            check.extra.setdefault('stage_wall_s', {})[label] = round(now - self._t, 1)
        self._t = now

    def run_universe(self, check, consts, label, machine=True):
        box = {}
        th = None
        if machine:      # every intermediate state of the machine against the state laws (runs alongside the replay)
            import threading

            def run_machine():
                try:
                    box['res'] = vlib.run_tlc(self.mc, cfg=self.mc, constants=consts, workers=max(4, vlib.NCPU // 2))
                except BaseException as e:      # re-raised in the main thread
                    box['exc'] = e
            th = threading.Thread(target=run_machine)
            th.start()
        try:
            res2, results = vlib.map_states(self.mc, worker, cfg=self.mc + '_cases', constants=consts)
        finally:
            if th is not None:
                th.join()
        if machine:
            if 'exc' in box:
                raise box['exc']
            vlib.tlc_must_pass(box['res'], '%s machine %s' % (self.mc, label))
            check.add_tlc(box['res'], '%s machine [%s]' % (self.mc, label))
        check.add_tlc(res2, '%s cases [%s]' % (self.mc, label))
        log_rows = []
        drift = 0
        errors = [e for r in results for e in r.get('errors', [])]
        if errors:
            raise vlib.MachineryError('%d replay(s) raised inside the harness, first: %s' % (len(errors), errors[0]))
        for r in results:
            check.cov['evaluations'] += r['n']
            check.cov['distinct_nontrivial'] += r['nontrivial']
            badcases = {_json.dumps(b['case']['case'], sort_keys=True) for b in r['bad']}
            check.validated(r['cases'] - len(badcases))
            for s in r['samples']:
                check.sample(s)
            for b in r['bad']:
                check.violation(b['case'], b['why'], matcher=self.match)
            for k, v in r['vac'].items():
                self.branches[k] = self.branches.get(k, 0) + v
            drift += r['drift_cls']
            for d in r['drift_samples']:
                if len(check.extra.setdefault('drift_class_samples', [])) < 5:
                    check.extra['drift_class_samples'].append(d)
            log_rows += r['log_rows']
        check.extra['drift_error_class'] = check.extra.get('drift_error_class', 0) + drift
        return log_rows

    def validate(self, check, rows, label):
        """Rows through the Trace module; law clauses are violations, drift- clauses are counted."""
        if not rows:
            return
        for r in rows:
            if r['obs'].get('primer_problems'):
                check.violation(dict(case=r['case'], obs=r['obs'], exp=None, spelling=r.get('spelling', ''), logging=True,
                                     clause='history-dependent', direction='code->spec', ephemeral=True),
                                'assign / read / delete on a brand-new class failed after other classes were collected: %s'
                                % r['obs']['primer_problems'], matcher=self.match_rows)
            if r['obs'].get('literal_untouched') is False:
                check.violation(dict(case=r['case'], obs=r['obs'], exp=None, spelling=r.get('spelling', ''), logging=True,
                                     clause='literal-value-mutated', direction='code->spec'),
                                'the literal value passed to assign was modified', matcher=self.match_rows)
        slim = [dict(case=r['case'], obs={k: v for k, v in r['obs'].items() if k not in ('literal_untouched', 'primer_problems')}) for r in rows]
        index = {id(s): r for s, r in zip(slim, rows)}
        rejects = vlib.validate_rows(check, self.trace, slim, label, chunk=4000)
        for (row, rej) in rejects:
            full = index.get(id(row), row)
            if rej['clause'].startswith('drift-'):
                check.extra['drift_' + label] = check.extra.get('drift_' + label, 0) + 1
                check.validated(1)
                if len(check.extra.setdefault('drift_samples', [])) < 3:
                    check.extra['drift_samples'].append(dict(clause=rej['clause'], steps=row['case']['steps'],
                                                             spelling=full.get('spelling', ''), log=row['obs']['log']))
                continue
            info = dict(case=row['case'], obs=row['obs'], exp=None, spelling=full.get('spelling', ''), logging=True,
                        clause=rej['clause'], direction='code->spec', route=full.get('route', 'default'),
                        ephemeral=full.get('ephemeral', False))
            check.violation(info, 'recorded execution rejected by the specification: clause %s' % rej['clause'],
                            matcher=self.match_rows)

    def run_coverage(self, check):
        """vacuity: every machine action is taken (TLC -coverage on a small universe)."""
        import os
        cfg = self.mc + '_cov' if os.path.exists(os.path.join(vlib.SPEC_DIR, self.mc + '_cov.cfg')) else self.mc
        res = vlib.run_tlc(self.mc, cfg=cfg, constants=dict(self.coverage_universe, Mutant='"none"'), coverage=True)
        vlib.tlc_must_pass(res, self.mc + ' coverage')
        cov = {a: res['coverage'].get(a, 0) for a in self.need}
        if not all(cov.values()):
            raise vlib.MachineryError('machine actions never taken: %s' % cov)
        check.extra['action_coverage'] = cov

    def corrupted_rows_rejected(self, check, rows):
        """self-test of the code -> spec direction: recorded rows with one corrupted field must be
        rejected by the Trace module with a law clause (exit 2 otherwise)."""
        import copy
        bad = []
        # (1) a successful wildcard-free write whose recorded final heap lost the written entry
        for r in rows:
            o = r['obs']
            w = [e for e in o['log'] if e['ev'] == 'write' and e['done']]
            if o['ok'] and w and not has_star(r['case']['steps']) and r['case']['missing'] == 'none':
                c = copy.deepcopy(dict(case=r['case'], obs=o))
                c['obs']['heap'] = copy.deepcopy(r['case']['heap0'])
                bad.append(('heap-effect', c))
                break
        # (2) a failing wildcard-free run with an effective write to a pre-existing cell before its last event
        for r in rows:
            o = r['obs']
            if not o['ok'] and not has_star(r['case']['steps']) and r['case']['heap0'][0]['cls'] in ('dict', 'list', 'obj'):
                c = copy.deepcopy(dict(case=r['case'], obs=o))
                ev = {'ev': 'write', 'a': 1, 'op': 'set' if self.kind == 'assign' else 'del',
                      'key': {'k': 'str', 's': 'zz'}, 'done': True, 'via': 'seg'}
                c['obs']['log'] = [ev] + c['obs']['log'] + [dict(ev, done=False)]
                bad.append(('attach-last' if self.kind == 'assign' else 'write-not-last', c))
                break
        # (3) a failing run recorded as a success
        for r in rows:
            o = r['obs']
            if not o['ok'] and not has_star(r['case']['steps']):
                c = copy.deepcopy(dict(case=r['case'], obs=o))
                c['obs'].update(ok=True, cls='', v=r['case']['root'])
                bad.append(('no-error', c))
                break
        if len(bad) < 3:
            raise vlib.MachineryError('could not build the corrupted rows (%d)' % len(bad))
        scratch = vlib.Check(self.prop, 'selftest', 0)
        rejects = vlib.validate_rows(scratch, self.trace, [c for _, c in bad], 'corrupted')
        got = {id(row): rej['clause'] for row, rej in rejects}
        verdicts = [got.get(id(c), 'accepted') for _, c in bad]
        ok = all(v != 'accepted' and not v.startswith('drift-') for v in verdicts)
        check.extra['corrupted_rows'] = dict(expected=[e for e, _ in bad], verdicts=verdicts)
        if not ok:
            raise vlib.MachineryError('corrupted recorded rows were not rejected: %s' % verdicts)

    def run_mutants(self, check):
        got = {}
        for name, laws in self.mutants.items():
            universe = self.mutant_universe
            if isinstance(laws, dict):
                universe, laws = laws['universe'], laws['laws']
            consts = dict(universe, Mutant='"%s"' % name)
            res = vlib.run_tlc(self.mc, cfg=self.mc, constants=consts)
            got[name] = res['violated']
            if res['violated'] not in laws:
                raise vlib.MachineryError('spec mutant %s: expected one of %s violated, TLC says %r'
                                          % (name, laws, res['violated']))
        check.extra['spec_mutants_violate'] = got

    def main(self, tier, seed, universes, nrandom, assumptions, rule):
        check = vlib.Check(self.prop, tier, seed)
        self.lap(check, 'start')
        # vacuity is checked on the replayed behaviours (behaviours_by_branch below: every machine action and
        # every route must be taken) and by the spec mutants; TLC's own -coverage statistics were looked at
        # during development but run out of memory on the present module, so they are not part of a run
        log_rows = []
        for u in universes:
            label, consts = u[0], u[1]
            log_rows += self.run_universe(check, consts, label, machine=(len(u) < 3 or u[2]))
            self.lap(check, 'tlc+replay ' + label)
        check.extra['behaviours_by_branch'] = dict(sorted(self.branches.items()))
        want = ['ok', 'fetch-parent', 'failed-write', 'fault-flag', 'wildcard', 'error:PathAccessError', 'error:any',
                'route:glommer', 'route:ephemeral', 'route:falsy', 'route:eq-true', 'route:eq-raise', 'route:twice',
                'route:odict', 'route:ntuple']
        want += ['factory-call', 'build-tail', 'store', 'reuse-shallower-then-deeper', 'reuse-deeper-then-shallower'] \
            if self.kind == 'assign' else ['del', 'error:PathDeleteError', 'lenient']
        if not all(self.branches.get(k) for k in want):
            raise vlib.MachineryError('vacuous universe: no behaviour through %s'
                                      % [k for k in want if not self.branches.get(k)])
        if tier == 'thorough':
            self.run_mutants(check)
            self.lap(check, 'spec-mutants')
        check.extra['replays_with_other_write_log'] = len(log_rows)
        self.validate(check, log_rows[:(600 if tier == 'quick' else 6000)], 'replay-logs')
        self.lap(check, 'validate-replay-logs')
        rng = _random.Random(seed * 7919 + 11)
        rows = record_rows(rng, nrandom, self.kind)
        check.extra['recorded_rows'] = len(rows)
        check.cov['evaluations'] += len(rows)
        for r in rows[:2]:
            check.sample(dict(kind='recorded', case=r['case'], obs=r['obs'], spelling=r['spelling']), limit=6)
        self.lap(check, 'record-random')
        if tier == 'thorough':
            self.corrupted_rows_rejected(check, rows)
        self.validate(check, rows, 'random')
        self.lap(check, 'validate-random')
        check.extra['constants'] = [u[1] for u in universes]
        check.assumptions += assumptions
        return check.finish(rule=rule, exhaustive=True)

    def replay(self, path):
        with open(path) as f:
            v = _json.load(f)
        info = v['case']
        case = info['case']
        print('case:', _json.dumps({k: case[k] for k in ('kind', 'root', 'steps', 'val', 'missing', 'facfail', 'ignore', 'flags')}))
        print('heap0:', _json.dumps(case['heap0']))
        bad = 0
        logging = info.get('logging', True)
        if info.get('reuse'):
            ru = info['reuse']
            print('ONE spec object evaluated on two targets (%s), this is evaluation %d' % (ru['mode'], ru['which']))
            print('first target heap0:', _json.dumps(ru['first']['heap0']))
            print('second target heap0:', _json.dumps(ru['second']['heap0']))
            sp = [x for x in spellings(case['steps']) if x[0] == info['spelling']][0]
            obs = run_reuse(ru['first'], ru['second'], sp, logging, ru['mode'])[ru['which'] - 1]
            clause = conform_clause(case, info['exp'], obs)
            print('observed: ok=%s cls=%s v=%s' % (obs['ok'], obs['cls'], obs['v']))
            print('  heap:', _json.dumps(obs['heap']))
            print('  expected: %s' % _json.dumps({k: info['exp'][k] for k in ('ok', 'err', 'lenient', 'v')}))
            print('  expected heap: %s' % _json.dumps(info['exp']['heap']))
            print('  clause: %r' % clause)
            return 1 if clause else 0
        for sp in spellings(case['steps']):
            if info.get('spelling') and sp[0] != info['spelling']:
                continue
            obs = run_case(case, sp, logging, route=info.get('route', 'default'), ephemeral=info.get('ephemeral', False))
            print('spelling=%s logging=%s observed: ok=%s cls=%s v=%s nfac=%s'
                  % (sp[0], logging, obs['ok'], obs['cls'], obs['v'], obs['nfac']))
            print('  heap:', _json.dumps(obs['heap']))
            print('  log :', _json.dumps(obs['log']))
            if info.get('exp'):
                clause = conform_clause(case, info['exp'], obs)
                print('  expected: %s' % _json.dumps({k: info['exp'][k] for k in ('ok', 'err', 'lenient', 'v')}))
                print('  expected heap: %s' % _json.dumps(info['exp']['heap']))
                print('  clause: %r' % clause)
                bad += bool(clause)
            else:
                check = vlib.Check(self.prop, 'replay', 0)
                rej = vlib.validate_rows(check, self.trace, [dict(case=case, obs=obs)], 'replay')
                real = [r for r in rej if not r[1]['clause'].startswith('drift-')]
                print('  specification verdict: %s' % ([r[1]['clause'] for r in rej] or 'accepted'))
                bad += bool(real)
        return 1 if bad else 0
