"""Shared binding code for C11 (assign) and C12 (delete): write-logging / faulting
containers, case -> real call, projection of what the library did, comparison with the
expectation of spec/GlomMutate.tla, random cases for the code -> spec direction."""
import glom
from glom import Path, T, S, Spec, Assign, Delete, PathAccessError
from glom.core import PathAssignError, UnregisteredTarget
from glom.mutation import PathDeleteError

import codec
import vlib



class _NoTraceback:
    """glom formats the Python traceback of every escaping error eagerly (GlomError._finalize,
    ~1 ms); C11 / C12 never look at message text, so the replay processes skip that formatting."""
    def __getattr__(self, name):
        import traceback
        return getattr(traceback, name)

    @staticmethod
    def format_exc(*a, **kw):
        return 'Traceback elided by the verification harness'


glom.core.traceback = _NoTraceback()

WLOG = []      # write / factory events of the current call
FAULT = {}     # id(container) -> "wfault" | "dfault"


def _ev(o, op, key):
    e = {'ev': 'write', 'o': o, 'op': op, 'key': key, 'done': False}
    WLOG.append(e)
    return e


class WDict(dict):
    __slots__ = ()

    def __setitem__(self, k, v):
        e = _ev(self, 'set', k)
        if FAULT.get(id(self)) == 'wfault':
            raise RuntimeError('injected __setitem__ fault')
        dict.__setitem__(self, k, v)
        e['done'] = True

    def __delitem__(self, k):
        e = _ev(self, 'del', k)
        if FAULT.get(id(self)) == 'dfault':
            raise RuntimeError('injected __delitem__ fault')
        dict.__delitem__(self, k)
        e['done'] = True


class WList(list):
    __slots__ = ()

    def __setitem__(self, k, v):
        e = _ev(self, 'set', k)
        if FAULT.get(id(self)) == 'wfault':
            raise RuntimeError('injected __setitem__ fault')
        list.__setitem__(self, k, v)
        e['done'] = True

    def __delitem__(self, k):
        e = _ev(self, 'del', k)
        if FAULT.get(id(self)) == 'dfault':
            raise RuntimeError('injected __delitem__ fault')
        list.__delitem__(self, k)
        e['done'] = True


class WTuple(tuple):
    __slots__ = ()


class WObj(codec.Obj):
    def __setattr__(self, name, v):
        e = _ev(self, 'set', name)
        if FAULT.get(id(self)) == 'wfault':
            raise RuntimeError('injected __setattr__ fault')
        object.__setattr__(self, name, v)
        e['done'] = True

    def __delattr__(self, name):
        e = _ev(self, 'del', name)
        if FAULT.get(id(self)) == 'dfault':
            raise RuntimeError('injected __delattr__ fault')
        object.__delattr__(self, name)
        e['done'] = True


class WPropObj(WObj):
    r = property(lambda self: 7)      # read-only property


class PropObj(codec.Obj):
    r = property(lambda self: 7)


WRITING = dict(codec.PLAIN, dict=WDict, list=WList, tuple=WTuple, obj=WObj)


def build(case, logging):
    """Real objects for the case's heap, faults installed."""
    heap = codec.Heap([dict(c) for c in case['heap0']], WRITING if logging else codec.PLAIN)
    heap.n0 = len(case['heap0'])
    heap.created = []
    FAULT.clear()
    for a, f in enumerate(case['flags'], 1):
        if f == 'prop':
            heap.objs[a].__class__ = WPropObj if logging else PropObj
        elif f:
            if not logging:
                raise vlib.MachineryError('fault flags need the logging classes')
            FAULT[id(heap.objs[a])] = f
    return heap


def arg_py(a):
    k = a['k']
    if k == 'int':
        return a['i']
    if k == 'str':
        return a['s']
    if k == 'none':
        return None
    if k == 'bool':
        return a['b']
    raise ValueError(a)


def _tstep(t, op, a):
    return t[a] if op == '[' else getattr(t, a)


def _parts(steps):
    return [arg_py(s['arg']) if s['op'] == 'P' else _tstep(T, s['op'], arg_py(s['arg'])) for s in steps]


def _merged(steps, root=None):
    ps, cur = [], root
    for s in steps:
        a = arg_py(s['arg'])
        if s['op'] == 'P':
            if cur is not None:
                ps.append(cur)
                cur = None
            ps.append(a)
        else:
            cur = _tstep(cur if cur is not None else T, s['op'], a)
    if cur is not None:
        ps.append(cur)
    return Path(*ps)


def _chain(steps, t):
    for s in steps:
        t = _tstep(t, s['op'], arg_py(s['arg']))
    return t


def spellings(steps):
    """Every way of writing the destination: (name, builder, s_rooted)."""
    out = []
    ops = [s['op'] for s in steps]
    args = [arg_py(s['arg']) for s in steps]
    if all(o == 'P' for o in ops) and all(isinstance(a, str) and a and '.' not in a and a not in ('*', '**') for a in args):
        text = '.'.join(args)
        out.append(('dotted', lambda: text, False))
    out.append(('Path', lambda: Path(*_parts(steps)), False))
    if any(o != 'P' for o in ops) and any(o == 'P' for o in ops):
        out.append(('Path-merged', lambda: _merged(steps), False))
    if all(o != 'P' for o in ops):
        out.append(('T', lambda: _chain(steps, T), False))
        out.append(('S-T', lambda: _chain(steps, S['x']), True))
    else:
        out.append(('S-Path', lambda: Path(S['x'], *_parts(steps)), True))
    return out


def mk_val(heap, vs):
    if vs['k'] == 'lit':
        return heap.val(vs['v'])
    if vs['k'] == 'spec':
        return Spec(Path(*_parts(vs['steps'])))
    return _chain(vs['steps'], T)


def exc_name(e):
    if isinstance(e, PathDeleteError):
        return 'PathDeleteError'
    if isinstance(e, PathAssignError):
        return 'PathAssignError'
    if isinstance(e, PathAccessError):
        return 'PathAccessError'
    if isinstance(e, UnregisteredTarget):
        return 'UnregisteredTarget'
    return codec.exc_class_name(e)


def _children(o):
    if isinstance(o, dict):
        return list(o.values())
    if isinstance(o, (list, tuple)):
        return list(o)
    if isinstance(o, codec.Obj):
        return list(vars(o).values())
    return []


def _number_created(heap, cls):
    """Give the factory-made objects addresses n0+1.. in the order in which they are met when
    walking the pre-existing cells (independent of the order the library made them in);
    unreachable ones follow in creation order."""
    created = {id(o): o for o in heap.created}
    order = []
    seen = set()

    def walk(o):
        for ch in _children(o):
            if id(ch) in created and id(ch) not in seen:
                seen.add(id(ch))
                order.append(ch)
                walk(ch)
    for a in range(1, heap.n0 + 1):
        walk(heap.objs[a])
    for o in heap.created:
        if id(o) not in seen:
            seen.add(id(o))
            order.append(o)
            walk(o)
    for o in order:
        heap.cells.append({'cls': cls, 'items': []})
        a = len(heap.cells)
        heap.objs[a] = o
        heap.ids[id(o)] = a


def run_case(case, spelling, logging):
    """Perform the case on real objects; project every observable C11 / C12 name."""
    name, mk, s_rooted = spelling
    heap = build(case, logging)
    target = heap.val(case['root'])
    path = mk()
    kw = {'scope': {'x': target}} if s_rooted else {}
    nfac = [0]
    del WLOG[:]
    if case['kind'] == 'assign':
        factory = None
        if case['missing'] != 'none':
            fcls = (WRITING if logging else codec.PLAIN)[case['missing']]

            def factory():
                nfac[0] += 1
                WLOG.append({'ev': 'factory', 'n': nfac[0]})
                if nfac[0] == case['facfail']:
                    raise RuntimeError('injected factory fault')
                o = fcls()
                heap.created.append(o)
                return o
        val = mk_val(heap, case['val'])
        if name == 'dotted':
            call = lambda: glom.assign(target, path, val, missing=factory)
        else:
            call = lambda: glom.glom(target, Assign(path, val, missing=factory), **kw)
    else:
        if name == 'dotted':
            call = lambda: glom.delete(target, path, ignore_missing=case['ignore'])
        else:
            call = lambda: glom.glom(target, Delete(path, ignore_missing=case['ignore']), **kw)
    obs = {'ok': True, 'cls': '', 'v': {'k': 'none'}}
    try:
        res = call()
    except Exception as e:
        obs['ok'] = False
        obs['cls'] = exc_name(e)
    events = list(WLOG)
    del WLOG[:]
    _number_created(heap, case['missing'])
    if obs['ok']:
        obs['v'] = heap.project(res)
    obs['heap'] = heap.snapshot()
    log = []
    for e in events:
        if e['ev'] == 'factory':
            log.append({'ev': 'factory', 'a': e['n'], 'op': 'call', 'key': {'k': 'none'}, 'done': True})
        else:
            log.append({'ev': 'write', 'a': heap.ids.get(id(e['o']), 0), 'op': e['op'],
                        'key': heap.project(e['key']), 'done': e['done']})
    obs['log'] = log
    obs['nfac'] = nfac[0]
    FAULT.clear()
    return obs


def conform_clause(case, exp, obs):
    """ConformClause of GlomMutate.tla on an observation (same order of clauses)."""
    n0 = len(case['heap0'])
    h = obs['heap']
    if len(h) < n0:
        return 'heap-size'
    if exp['lenient']:
        if h[:n0] != case['heap0']:
            return 'heap-changed'
        if obs['ok'] and obs['v'] != exp['v']:
            return 'returned'
        return ''
    if obs['ok'] != exp['ok']:
        return 'unexpected-error' if exp['ok'] else 'no-error'
    if exp['ok']:
        if obs['v'] != exp['v']:
            return 'returned'
        if h != exp['heap']:
            return 'heap-effect'
        return ''
    if h[:n0] != case['heap0']:
        return 'not-atomic'
    if exp['err'] != 'any' and obs['cls'] != exp['err']:
        return 'error-class'
    return ''


def case_of(st):
    return st['case']


def replay_state(st, out, matcher_info=None):
    """spec -> code for one terminal TLC state: every spelling, plain and logging classes."""
    case, exp = st['case'], st['exp']
    flagged = any(f in ('wfault', 'dfault') for f in case['flags'])
    for logging in (False, True):
        if flagged and not logging:
            continue
        for sp in spellings(case['steps']):
            try:
                obs = run_case(case, sp, logging)
            except vlib.MachineryError:
                raise
            out['n'] += 1
            clause = conform_clause(case, exp, obs)
            info = dict(case=case, exp=exp, obs=obs, spelling=sp[0], logging=logging, clause=clause,
                        model=dict(out=st['out'], log=st['log']))
            if clause:
                out['bad'].append(dict(why='%s [%s%s]' % (clause, sp[0], ',logging' if logging else ''), case=info))
                continue
            # mechanism level (drift, not violation): escaping class, write log
            if not obs['ok'] and not st['out']['ok'] and obs['cls'] != st['out']['mech']:
                out['drift_cls'] += 1
                if len(out['drift_samples']) < 3:
                    out['drift_samples'].append(dict(steps=case['steps'], spelling=sp[0], model=st['out']['mech'], observed=obs['cls']))
            if logging and obs['log'] != st['log']:
                # the law on the log is decided by TLC (Trace module) on the observed log
                out['log_rows'].append(dict(case=case, obs=obs, spelling=sp[0]))


def new_out():
    return dict(n=0, cases=0, nontrivial=0, bad=[], samples=[], drift_cls=0, drift_samples=[], log_rows=[])


def worker(states):
    out = new_out()
    for st in states:
        if st.get('pc') != 'done':
            continue
        out['cases'] += 1
        case = st['case']
        # non-trivial: the parent exists or is created, i.e. a write is attempted or a tail is built
        if st['log'] or st['out']['ok']:
            out['nontrivial'] += 1
        if len(out['samples']) < 1 and st['log'] and len(case['steps']) >= 2:
            out['samples'].append(dict(case=case, exp=st['exp'], out=st['out'], log=st['log']))
        replay_state(st, out)
    return out


# ---- code -> spec: random cases --------------------------------------------------------
KEYS = ['a', 'b', 'c', '0', '1']
STRS = ['', 's', 'uv']


def _sv(x):
    if isinstance(x, str):
        return {'k': 'str', 's': x}
    if x is None:
        return {'k': 'none'}
    return {'k': 'int', 'i': x}


def rand_value(rng, n, a, cls, imm):
    if rng.random() < 0.55 and n > 1 and cls not in ('set', 'frozenset'):
        if cls == 'tuple':
            cand = list(range(a + 1, n + 1))
        else:
            cand = [b for b in range(1, n + 1) if not imm[b] or b > a]
        if cand:
            return {'k': 'ref', 'a': rng.choice(cand)}
    r = rng.random()
    if r < 0.3:
        return {'k': 'none'}
    if r < 0.6:
        return {'k': 'int', 'i': rng.randint(-3, 9)}
    return {'k': 'str', 's': rng.choice(STRS)}


def rand_heap(rng):
    n = rng.randint(1, 10)
    classes = [None] + [rng.choice(['dict', 'dict', 'dict', 'list', 'list', 'tuple', 'obj', 'obj', 'set', 'frozenset'])
                        for _ in range(n)]
    classes[1] = rng.choice(['dict', 'dict', 'list', 'obj', 'tuple'])
    imm = [False] + [c in ('tuple', 'frozenset') for c in classes[1:]]
    cells = []
    for a in range(1, n + 1):
        cls = classes[a]
        m = rng.randint(0, 3)
        if cls == 'dict':
            keys = rng.sample(KEYS, m) if rng.random() < 0.7 else list(range(m))
            items = [[_sv(k), rand_value(rng, n, a, cls, imm)] for k in keys]
        elif cls == 'obj':
            items = [[_sv(k), rand_value(rng, n, a, cls, imm)] for k in rng.sample(KEYS, m)]
        elif cls in ('set', 'frozenset'):
            items = [{'k': 'int', 'i': v} for v in sorted({rng.randint(0, 5) for _ in range(m)})]
        else:
            items = [rand_value(rng, n, a, cls, imm) for _ in range(m)]
        cells.append({'cls': cls, 'items': items})
    return cells


def rand_step(rng, cells, cur, valid):
    if valid and cur is not None and cur['k'] == 'ref':
        c = cells[cur['a'] - 1]
        if c['items'] and c['cls'] == 'dict':
            return {'op': rng.choice(['P', '[']), 'arg': rng.choice(c['items'])[0]}
        if c['items'] and c['cls'] == 'obj':
            return {'op': rng.choice(['P', '.']), 'arg': rng.choice(c['items'])[0]}
        if c['items'] and c['cls'] in ('list', 'tuple'):
            n = len(c['items'])
            i = rng.randint(-n, n - 1)
            if rng.random() < 0.5:
                return {'op': 'P', 'arg': _sv(str(i)) if rng.random() < 0.7 else _sv(i)}
            return {'op': '[', 'arg': _sv(i)}
    op = rng.choice(['P', 'P', '[', '.'])
    if op == '.':
        return {'op': op, 'arg': _sv(rng.choice(KEYS + ['x', 'y']))}
    return {'op': op, 'arg': _sv(rng.choice(KEYS + ['x', 'y', '-1', '5', 0, 1, -1, 2, -4]))}


def abstract_step(cells, cur, st):
    if cur is None or cur['k'] != 'ref':
        return None
    c = cells[cur['a'] - 1]
    a = st['arg']
    if c['cls'] in ('dict', 'obj'):
        if c['cls'] == 'dict' and st['op'] == '.':
            return None
        if c['cls'] == 'obj' and st['op'] == '[':
            return None
        for k, v in c['items']:
            if k == a:
                return v
        return None
    if c['cls'] in ('list', 'tuple') and st['op'] != '.':
        try:
            i = int(a['s']) if a['k'] == 'str' and st['op'] == 'P' else a['i']
            return c['items'][i]
        except Exception:
            return None
    return None


def rand_steps(rng, cells, root, lo, hi, p_valid=0.85):
    steps, cur = [], root
    for _ in range(rng.randint(lo, hi)):
        st = rand_step(rng, cells, cur, valid=rng.random() < p_valid)
        steps.append(st)
        cur = abstract_step(cells, cur, st)
    return steps


def rand_case(rng, kind):
    cells = rand_heap(rng)
    root = {'k': 'ref', 'a': 1}
    steps = rand_steps(rng, cells, root, 1, 6)
    flags = [''] * len(cells)
    r = rng.random()
    if r < 0.25:
        cand = [a for a, c in enumerate(cells, 1) if c['cls'] in ('dict', 'list', 'obj')]
        if cand:
            a = rng.choice(cand)
            opts = ['wfault' if kind == 'assign' else 'dfault']
            if cells[a - 1]['cls'] == 'obj' and not any(k == _sv('r') for k, _ in cells[a - 1]['items']):
                opts.append('prop')
            flags[a - 1] = rng.choice(opts)
    if rng.random() < 0.1:
        steps[-1] = {'op': rng.choice(['.', 'P']), 'arg': _sv('r')}
    case = dict(kind=kind, heap0=cells, flags=flags, root=root, steps=steps,
                val={'k': 'lit', 'v': {'k': 'int', 'i': 9}, 'steps': []}, missing='none', facfail=0, ignore=False)
    if kind == 'assign':
        r = rng.random()
        if r < 0.25:
            case['val'] = {'k': rng.choice(['spec', 't']), 'v': {'k': 'none'}, 'steps': []}
            vsteps = rand_steps(rng, cells, root, 0 if case['val']['k'] == 't' else 1, 3, 0.95)
            if case['val']['k'] == 't':
                vsteps = [s for s in vsteps if s['op'] != 'P']
            case['val']['steps'] = vsteps
        elif r < 0.4:
            case['val']['v'] = rng.choice([_sv('s'), _sv(None), _sv(0)])
        if rng.random() < 0.5:
            case['missing'] = rng.choice(['dict', 'dict', 'obj', 'list'])
            case['facfail'] = rng.choice([0, 0, 0, 1, 2, 3])
    else:
        case['ignore'] = rng.random() < 0.5
    return case


def record_rows(rng, n, kind):
    """Random cases run on the logging classes in a random spelling: rows for Trace_C11/12."""
    rows = []
    for _ in range(n):
        case = rand_case(rng, kind)
        sps = spellings(case['steps'])
        sp = rng.choice(sps)
        obs = run_case(case, sp, True)
        rows.append(dict(case=case, obs=obs, spelling=sp[0]))
    return rows
