"""pytest plugin (loaded with -p verif_stack_plugin): for every glom() call that ends in a finalized
GlomError while the repository's own tests run, records the scope events of the call (GLOM_VERIF hook:
enter / error / chain / final) together with the target-spec trace of the message the caller gets,
one JSON row per failing call, into $VERIF_STACK_OUT.

Frames are numbered per call in creation order (the root scope is frame 1, the root spec's frame 2),
targets and exceptions by object identity (kept alive until the row is written).  Each line of the
real message is recorded with its nesting depth, its kind and the *candidates* it may be showing:
the target tokens / frames / error tokens whose rendering is the text of the line (or a faithful
truncation of it)."""
import atexit
import json
import os
import re
import traceback

import glom
from glom.core import bbrepr

ROWS = []
TREES = {}       # id(root map) -> tree
FRAME_TREE = {}  # id(frame map) -> tree
KEEP = []
LIMIT = 200      # events per tree (longer trees are not written)
HEAD = ['error raised while processing, details below.', ' Target-spec trace (most recent last):']
SUFFIX = re.compile(r'\.\.\.( \(len=\d+\))?$')


def _tree_of(pm):
    t = FRAME_TREE.get(id(pm))
    if t is None:
        t = {'events': [], 'ids': {id(pm): 1}, 'maps': {1: pm}, 'tok': {}, 'objs': [], 'etok': {}, 'excs': [], 'bad': None, 'root': pm}
        TREES[id(pm)] = t
        FRAME_TREE[id(pm)] = t
        KEEP.append(pm)
    return t


def _tok(t, obj):
    k = id(obj)
    if k not in t['tok']:
        t['objs'].append(obj)
        t['tok'][k] = len(t['objs'])
    return t['tok'][k]


def _etok(t, e):
    k = id(e)
    if k not in t['etok']:
        t['excs'].append(e)
        t['etok'][k] = len(t['excs'])
    return t['etok'][k]


def shows(shown, full):
    if shown == full:
        return True
    m = SUFFIX.search(shown)
    return bool(m) and full.startswith(shown[:m.start()]) and len(shown) < len(full)


def _text(v):
    return bbrepr(v).replace("\\'", "'")


def parse(msg):
    """the trace part of a message as flat lines (depth, tick, rest)"""
    lines = msg.split('\n')
    if lines[:2] != HEAD:
        return None
    out = []
    for s in lines[2:]:
        if len(s) < 3 or s[0] != ' ' or s[1] not in '-|+\\X':
            break
        j = s.index(' ', 1)
        out.append((j - 2, s[j - 1], s[j + 1:]))
    return out


def nest(flat, t, spec_of, tgt_of, frame_tgt):
    """flat lines -> nested entries {kind, c, subs}; a line followed by deeper lines is a branching
    spec, its blocks start at the lines marked with a backslash"""
    def entry(rest):
        if rest.startswith('Target: '):
            shown = rest[8:]
            return {'kind': 'T', 'c': sorted({tok for tok, full in tgt_of.items() if shows(shown, full)}), 'subs': []}
        if rest.startswith('Spec: '):
            shown = rest[6:]
            return {'kind': 'S', 'c': sorted(f for f, full in spec_of.items() if shows(shown, full)), 'subs': []}
        return {'kind': 'E', 'c': sorted(k for k, full in t['etext'].items() if rest == full), 'subs': []}

    def block(i, d):
        out = []
        while i < len(flat) and flat[i][0] >= d:
            if flat[i][0] > d:
                # blocks of the branching spec just listed
                if not out or out[-1]['kind'] not in ('S', 'B'):
                    raise ValueError('deeper line without a spec line above it')
                out[-1]['kind'] = 'B'
                while i < len(flat) and flat[i][0] > d:
                    sub, i = block_one(i, d + 1)
                    out[-1]['subs'].append(sub)
                continue
            out.append(entry(flat[i][2]))
            i += 1
        return out, i

    def block_one(i, d):
        # one block at depth d: from a backslash-marked line to the next one at the same depth
        if flat[i][0] != d or flat[i][1] != '\\':
            raise ValueError('block does not start with a backslash-marked line')
        out = []
        first = True
        while i < len(flat) and flat[i][0] >= d:
            if flat[i][0] == d and flat[i][1] == '\\' and not first:
                break
            first = False
            if flat[i][0] > d:
                if not out or out[-1]['kind'] not in ('S', 'B'):
                    raise ValueError('deeper line without a spec line above it')
                out[-1]['kind'] = 'B'
                while i < len(flat) and flat[i][0] > d:
                    sub, i = block_one(i, d + 1)
                    out[-1]['subs'].append(sub)
                continue
            out.append(entry(flat[i][2]))
            i += 1
        return out, i

    n, i = block(0, 0)
    if i != len(flat):
        raise ValueError('trailing lines')
    return n


def hook(ev, scope, other):
    try:
        if ev == 'enter':
            m, pm = scope.maps[0], other.maps[0]
            t = _tree_of(pm)
            FRAME_TREE[id(m)] = t
            KEEP.append(m)
            f = len(t['ids']) + 1
            t['ids'][id(m)] = f
            t['maps'][f] = m
            if len(t['events']) < LIMIT:
                t['events'].append({'a': 'enter', 'f': f, 'par': t['ids'][id(pm)], 'tgt': _tok(t, m[glom.T]), 'e': 0})
        elif ev == 'error':
            t = FRAME_TREE.get(id(scope.maps[0]))
            if t is not None and len(t['events']) < LIMIT:
                t['events'].append({'a': 'error', 'f': t['ids'][id(scope.maps[0])], 'par': 0, 'tgt': 0, 'e': _etok(t, other)})
        elif ev == 'chain':
            t = FRAME_TREE.get(id(scope.maps[0]))
            if t is not None and len(t['events']) < LIMIT:
                if id(other.maps[0]) not in t['ids']:
                    t['bad'] = 'chain to a scope of another call'
                else:
                    t['events'].append({'a': 'chain', 'f': t['ids'][id(scope.maps[0])], 'par': t['ids'][id(other.maps[0])], 'tgt': 0, 'e': 0})
        elif ev == 'final':
            t = TREES.get(id(scope.maps[0]))
            if t is None or t['bad'] or len(t['events']) >= LIMIT:
                return
            final(t, scope, other)
    except Exception as e:     # never disturb the tests
        ROWS.append({'skipped': 'recorder: %r' % (e,)})


def final(t, scope, err):
    wrapped = getattr(err, '_GlomError__wrapped', None)
    if wrapped is None or id(wrapped) not in t['etok']:
        ROWS.append({'skipped': 'the raised error was never seen by a scope'})
        return
    msg = str(err)
    for a in ('_finalized_str', '_target_spec_trace'):    # leave the error as the caller would have found it
        if a in err.__dict__:
            del err.__dict__[a]
    flat = parse(msg)
    if flat is None:
        ROWS.append({'skipped': 'no trace header', 'message': msg[:200], 'cls': type(err).__name__, 'test': os.environ.get('PYTEST_CURRENT_TEST'),
                     # a GlomError subclass of the test itself that overrides __str__ speaks for itself
                     'own_str': '__str__' in type(err).__dict__ and not type(err).__name__.startswith('GlomError.wrap(')})
        return
    spec_of = {f: _text(m[glom.Spec]) for f, m in t['maps'].items() if f > 1}
    tgt_of = {tok: _text(obj) for tok, obj in zip(range(1, len(t['objs']) + 1), t['objs'])}
    root_tok = _tok(t, scope.maps[0][glom.T])
    tgt_of[root_tok] = _text(scope.maps[0][glom.T])
    t['etext'] = {k: ''.join(traceback.format_exception_only(type(e), e))[:-1] for k, e in zip(range(1, len(t['excs']) + 1), t['excs'])}
    try:
        n = nest(flat, t, spec_of, tgt_of, None)
    except ValueError as e:
        ROWS.append({'unparsed': str(e), 'message': msg.split('\nTraceback')[0][:2000], 'test': os.environ.get('PYTEST_CURRENT_TEST')})
        return
    tail = msg.split('\n')[-1]
    want = ''.join(traceback.format_exception_only(type(wrapped), wrapped)).rstrip('\n').split('\n')[-1]
    ROWS.append({'events': list(t['events']), 'root': t['etok'][id(wrapped)], 'roottgt': root_tok, 'n': n,
                 'flat': [{'d': d, 'k': 'T' if r.startswith('Target: ') else 'S' if r.startswith('Spec: ') else 'E'} for d, _, r in flat],
                 'tail_ok': tail == want or tail.endswith(want), 'test': os.environ.get('PYTEST_CURRENT_TEST'),
                 'message': msg.split('\nTraceback')[0][:3000]})


def _dump():
    out = os.environ.get('VERIF_STACK_OUT')
    if not out:
        return
    with open(out, 'w') as f:
        for r in ROWS:
            f.write(json.dumps(r, separators=(',', ':')) + '\n')


glom.core._verif_install(hook)
atexit.register(_dump)
