import argparse
import importlib
import os
import sys
import traceback

import vlib


def main():
    ap = argparse.ArgumentParser()
    ap.add_argument('prop')
    ap.add_argument('--tier', default=os.environ.get('VERIF_TIER', 'quick'), choices=['quick', 'thorough'])
    ap.add_argument('--replay')
    a = ap.parse_args()
    seed = int(os.environ.get('VERIF_SEED', '0') or 0)
    try:
        mod = importlib.import_module(a.prop.lower())
        if a.replay:
            return mod.replay(a.replay)
        return mod.main(a.tier, seed)
    except vlib.MachineryError as e:
        print('MACHINERY-FAILURE %s: %s' % (a.prop, e))
        return 2
    except Exception:
        traceback.print_exc()
        print('MACHINERY-FAILURE %s: unexpected exception' % a.prop)
        return 2


if __name__ == '__main__':
    sys.exit(main())
