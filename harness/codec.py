"""Concrete <-> abstract: build real Python objects from the specification's heap
encoding (see spec/GlomData.tla) and project observed objects back."""
from collections import OrderedDict
from fractions import Fraction

ACCESS_LOG = []


class Obj:
    """attribute object ("obj" cells)"""
    @property
    def lazy(self):
        # an optional / lazily loaded attribute: defined on the class, but cannot be had
        raise AttributeError('lazy is not loaded')

    def __repr__(self):
        return 'Obj(%s)' % ', '.join('%s=%r' % kv for kv in sorted(vars(self).items(), key=lambda kv: str(kv[0])))


class CObj(Obj):
    """callable attribute object ("cobj" cells)"""
    def __call__(self, *a, **kw):
        return 'called'


class LogDict(dict):
    def __getitem__(self, k):
        ACCESS_LOG.append(id(self))
        return dict.__getitem__(self, k)


class LogODict(OrderedDict):
    def __getitem__(self, k):
        ACCESS_LOG.append(id(self))
        return OrderedDict.__getitem__(self, k)


class LogList(list):
    def __getitem__(self, k):
        ACCESS_LOG.append(id(self))
        return list.__getitem__(self, k)


class LogTuple(tuple):
    def __getitem__(self, k):
        ACCESS_LOG.append(id(self))
        return tuple.__getitem__(self, k)


class LogObj(Obj):
    def __getattribute__(self, name):
        if not name.startswith('__'):
            ACCESS_LOG.append(id(self))
        return object.__getattribute__(self, name)


PLAIN = {'dict': dict, 'odict': OrderedDict, 'list': list, 'tuple': tuple, 'set': set,
         'frozenset': frozenset, 'obj': Obj, 'cobj': CObj}
LOGGING = dict(PLAIN, dict=LogDict, odict=LogODict, list=LogList, tuple=LogTuple, obj=LogObj)



def _falsy(cls):
    """the same class, whose instances are falsy whatever they hold (a truth test is not an emptiness or
    None test)"""
    return type('Falsy' + cls.__name__, (cls,), {'__bool__': lambda self: False, '__slots__': ()} if issubclass(cls, tuple)
                else {'__bool__': lambda self: False})


FALSY_LOGGING = {k: (_falsy(v) if k in ('dict', 'odict', 'list', 'tuple', 'obj') else v) for k, v in LOGGING.items()}

from glom import SKIP, STOP
SENT = {'SKIP': SKIP, 'STOP': STOP, 'TK': ('a', 'b'), 'BY': b'ab'}      # TK: a compound (tuple) dict key


class Heap:
    """Real objects for a heap; objs[a] for address a (1-based), ids maps id(obj) -> a."""

    def __init__(self, cells, classes=PLAIN, fns=None):
        self.cells = cells
        self.classes = classes
        self.fns = fns or {}
        self.objs = {}
        # mutable cells first (empty), then immutable ones (children exist already), then
        # the contents of the mutable ones: any graph Python itself can hold can be built
        for a, cell in enumerate(cells, 1):
            if not issubclass(self.classes[cell['cls']], (tuple, frozenset)):
                self.objs[a] = self.classes[cell['cls']]()
        for a in range(1, len(cells) + 1):
            self._build(a)
        for a, cell in enumerate(cells, 1):
            cls, items, o = cell['cls'], cell['items'], self.objs[a]
            if isinstance(o, (tuple, frozenset)):
                continue
            if isinstance(o, dict):
                # OrderedDict keeps its own order list: dict.__setitem__ would bypass it
                if isinstance(o, OrderedDict):
                    # OrderedDict keeps its own order list (dict.__setitem__ would bypass it).  The entries are
                    # inserted in reverse and then moved to the end one by one: the order of the OrderedDict is
                    # the cell's order, while the raw order of the underlying dict is the opposite
                    for k, v in reversed(items):
                        OrderedDict.__setitem__(o, self.val(k), self.val(v))
                    for k, v in items:
                        OrderedDict.move_to_end(o, self.val(k))
                else:
                    for k, v in items:
                        dict.__setitem__(o, self.val(k), self.val(v))
            elif isinstance(o, list):
                for v in items:
                    list.append(o, self.val(v))
            elif isinstance(o, set):
                for v in items:
                    set.add(o, self.val(v))
            else:
                for k, v in items:
                    object.__setattr__(o, self.val(k), self.val(v))
        self.ids = {id(o): a for a, o in self.objs.items()}

    def _build(self, a, stack=()):
        if a in self.objs:
            return self.objs[a]
        if a in stack:
            raise ValueError('cycle through immutable cells only: %r' % (stack,))
        cell = self.cells[a - 1]
        o = self.classes[cell['cls']]([self._bval(v, stack + (a,)) for v in cell['items']])
        self.objs[a] = o
        return o

    def _bval(self, v, stack):
        return self._build(v['a'], stack) if v['k'] == 'ref' else self.val(v)

    def val(self, v):
        k = v['k']
        if k == 'int':
            return v['i']
        if k == 'str':
            return v['s']
        if k == 'none':
            return None
        if k == 'bool':
            return v['b']
        if k == 'ref':
            return self.objs[v['a']]
        if k == 'frac':
            return Fraction(v['n'], v['d'])
        if k == 'sent':
            return SENT[v['s']]
        if k == 'fn':
            return self.fns[v['s']]
        raise ValueError('unknown value kind %r' % (v,))

    # ---- projection ------------------------------------------------------------------
    def project(self, o, fresh=None):
        """Abstract value of an observed object.  Known objects become their address;
        unknown containers are numbered in discovery order as fresh cells
        (fresh = {'cells': [...], 'ids': {}}), giving a graph comparable up to renaming."""
        if id(o) in self.ids and not _is_scalar(o):
            return {'k': 'ref', 'a': self.ids[id(o)]}
        if o is None:
            return {'k': 'none'}
        if o is SKIP or o is STOP:
            return {'k': 'sent', 's': 'SKIP' if o is SKIP else 'STOP'}
        if isinstance(o, bytes) and o == SENT['BY']:
            return {'k': 'sent', 's': 'BY'}
        if isinstance(o, bool):
            return {'k': 'bool', 'b': o}
        if isinstance(o, int):
            return {'k': 'int', 'i': o}
        if isinstance(o, str):
            return {'k': 'str', 's': o}
        if isinstance(o, Fraction):
            return {'k': 'frac', 'n': o.numerator, 'd': o.denominator}
        if isinstance(o, float):
            fr = Fraction(o).limit_denominator(1000)
            if float(fr) == o:
                return {'k': 'int', 'i': fr.numerator} if fr.denominator == 1 and False else \
                    {'k': 'frac', 'n': fr.numerator, 'd': fr.denominator}
            return {'k': 'opaque', 's': repr(o)}
        for name, f in self.fns.items():
            if f is o:
                return {'k': 'fn', 's': name}
        if fresh is None:
            return {'k': 'opaque', 's': type(o).__name__}
        if id(o) in fresh['ids']:
            return {'k': 'new', 'a': fresh['ids'][id(o)]}
        cls = _cls_name(o)
        if cls is None:
            return {'k': 'opaque', 's': type(o).__name__}
        n = len(fresh['cells']) + 1
        fresh['ids'][id(o)] = n
        cell = {'cls': cls, 'items': None}
        fresh['cells'].append(cell)
        fresh.setdefault('keep', []).append(o)
        if cls in ('dict', 'odict'):
            cell['items'] = [[self.project(k, fresh), self.project(v, fresh)] for k, v in o.items()]
        elif cls == 'obj':
            cell['items'] = [[self.project(k, fresh), self.project(v, fresh)] for k, v in vars(o).items()]
        elif cls in ('set', 'frozenset'):
            cell['items'] = sorted((self.project(v, fresh) for v in o), key=repr)
        else:
            cell['items'] = [self.project(v, fresh) for v in o]
        return {'k': 'new', 'a': n}

    def snapshot(self):
        """Structure of every cell as it is now (for 'target unchanged' checks)."""
        out = []
        for a in range(1, len(self.cells) + 1):
            o = self.objs[a]
            cls = self.cells[a - 1]['cls']
            if isinstance(o, dict):
                items = [[self.project(k), self.project(v)] for k, v in (OrderedDict.items(o) if isinstance(o, OrderedDict) else dict.items(o))]
            elif isinstance(o, (set, frozenset)):
                items = sorted((self.project(v) for v in o), key=repr)
            elif isinstance(o, (list, tuple)):
                items = [self.project(v) for v in (list.__iter__(o) if isinstance(o, list) else tuple.__iter__(o))]
            else:
                items = [[self.project(k), self.project(v)] for k, v in vars(o).items()]
            out.append({'cls': cls, 'items': items})
        return out


def _is_scalar(o):
    return o is None or isinstance(o, (bool, int, str, float, Fraction))


def _cls_name(o):
    t = type(o)
    if issubclass(t, OrderedDict):
        return 'odict'
    for name in ('dict', 'list', 'tuple', 'frozenset', 'set'):
        if issubclass(t, PLAIN[name]):
            return name
    if isinstance(o, Obj):
        return 'obj'
    return None


BUILTIN_EXC = [KeyError, IndexError, AttributeError, TypeError, ValueError, ZeroDivisionError,
               LookupError, ArithmeticError, RuntimeError, StopIteration, OSError, NameError,
               AssertionError, Exception, BaseException]


def exc_class_name(e):
    """Name of the most specific well-known class e is an instance of (glom wraps foreign
    exceptions into a dynamically created subclass, so type(e).__name__ is not stable)."""
    from glom import GlomError
    for t in type(e).__mro__:
        if t.__name__.startswith('GlomError.wrap('):
            continue
        if t is GlomError and type(e) is not GlomError:
            continue
        return t.__name__
    return type(e).__name__
