"""C06  Non-mutating specs are pure: inputs untouched, outcome independent of history.

spec -> code: TLC explores spec/MC_C06.tla (GlomCalls, one process): every history of at
most MaxHist actions (calls from a pool incl. one spec object reused, PATH_STAR toggles,
registrations) with Path._MAX_CACHE = MaxCache is a state carrying the history and, per
call, the predicted outcome and cache contents.  Every maximal history is performed in one
interpreter (a child forked from the pristine, just-imported parent); each call's outcome
is compared with the prediction AND with the same call made first in another pristine child
configured with the same PATH_STAR / registrations; target, spec and caller scope are
deep-snapshotted (structure + identity) before and after every call.
code -> spec: long random histories over random calls from the same grammar at larger
sizes are run the same way, and the recorded sessions (every cache membership test, store,
fetch, registration, toggle, warning and call outcome, in order) are validated by TLC
(spec/Trace_C06.tla) against the cache mechanism and the isolated-call law.
"""
import json
import multiprocessing as mp
import os
import pickle
import random
import subprocess
import sys
import tempfile
import shutil
import warnings

import glom

import vlib
import c06_build as B
import c06_zoo

PROP = 'C06'
TRACE_MAXCACHE = 2


# ---- forked children -----------------------------------------------------------------------
def in_child(fn, *args):
    """run fn(*args) in a child forked from this (pristine) process; return its result"""
    r, w = os.pipe()
    pid = os.fork()
    if pid == 0:
        code = 0
        try:
            os.close(r)
            try:
                payload = pickle.dumps(('ok', fn(*args)))
            except BaseException as e:      # noqa
                import traceback
                payload = pickle.dumps(('err', traceback.format_exc()))
            with os.fdopen(w, 'wb') as f:
                f.write(payload)
        except BaseException:               # noqa
            code = 3
        finally:
            os._exit(code)
    os.close(w)
    with os.fdopen(r, 'rb') as f:
        data = f.read()
    os.waitpid(pid, 0)
    if not data:
        raise vlib.MachineryError('child died without a result')
    kind, val = pickle.loads(data)
    if kind == 'err':
        raise vlib.MachineryError('child failed:\n' + val)
    return val


def _assert_pristine():
    why = B.pristine_problem()
    if why:
        raise vlib.MachineryError('the parent interpreter is not pristine (glom was used before forking): ' + why)


def _fresh_call(call, star, regs):
    """the call made first in a fresh interpreter configured with (star, regs)"""
    warnings.simplefilter('ignore')
    glom.core.PATH_STAR = star
    for r in regs:
        B.apply_registration(r)
    ctx = B.Ctx()
    bc = B.Builder(ctx).call(call)
    before = B.snap_call(bc)
    out, text = B.run_call(ctx, bc)
    return out, text, B.snap_diff(before, B.snap_call(bc))


class Oracle:
    def __init__(self):
        self.memo = {}

    def get(self, call, star, regs):
        key = (json.dumps(call, sort_keys=True), star, tuple(regs))
        if key not in self.memo:
            self.memo[key] = in_child(_fresh_call, call, star, list(regs))
        return self.memo[key]


def _perform(actions, maxcache):
    """In a pristine child: perform the actions in order in ONE interpreter.
    actions: ('call', call) | ('toggle',) | ('reg', r).  Returns per-call records and the
    ordered event list (the Trace row)."""
    log = B.EventLog()
    plain = all(a[1].get('spelling', 'plain') == 'plain' for a in actions if a[0] == 'call')
    log.type_cache = plain
    B.install_logs(log, type_cache=plain)
    B.set_max_cache(maxcache)
    warnings.simplefilter('always')
    warnings.showwarning = lambda *a, **k: log.add({'e': 'warn'})
    ctx = B.Ctx()
    builder = B.Builder(ctx)
    built = {}
    star, regs, calls, events = True, [], [], []
    for act in actions:
        if act[0] == 'toggle':
            glom.core.PATH_STAR = star = not star
            log.add({'e': 'toggle'})
        elif act[0] == 'reg':
            B.register_logged(act[1], log)
            regs.append(act[1])
            log.add({'e': 'reg', 'r': act[1]})
        else:
            call = act[1]
            key = json.dumps(call, sort_keys=True)
            if key not in built:
                built[key] = builder.call(call)      # same target / scope objects on every repeat
            bc = built[key]
            before = B.snap_call(bc)
            out, text = B.run_call(ctx, bc)
            diff = B.snap_diff(before, B.snap_call(bc))
            log.add({'e': 'call', 'call': call, 'out': out})
            # the caller owns what it was handed: scribble over every returned container that is neither
            # the target's / scope's nor part of the public value of the spec (must not show in later calls)
            if ctx.local.last_result is not None:
                owned = set(builder.user_ids)
                c06_zoo._reachable(bc.target, owned)
                c06_zoo._reachable(bc.scope, owned)
                c06_zoo._reachable((bc.spec, bc.specobj), owned, public_only=True)
                c06_zoo.mutate_result(ctx.local.last_result, owned)
                ctx.local.last_result = None
            calls.append(dict(out=out, text=text, diff=diff, star=star, regs=list(regs), cache=B.cache_state() if plain else None,
                              nwarn=sum(1 for e in log.events if e['e'] == 'warn')))
    return calls, log.events


# ---- spec -> code -----------------------------------------------------------------------------
_CFG = {}


def _actions_of(hist, pool):
    acts = []
    for ev in hist:
        if ev['e'] == 'begin':
            acts.append(('call', pool[ev['c'] - 1]))
        elif ev['e'] == 'toggle':
            acts.append(('toggle',))
        elif ev['e'] == 'reg':
            acts.append(('reg', ev['r']))
    return acts


def check_history(acts, preds, maxcache, oracle, out, label):
    """perform one history; compare every call with the prediction (if any), the fresh-child
    oracle and the frame condition.  Returns the Trace row."""
    calls, events = in_child(_perform, acts, maxcache)
    call_acts = [a for a in acts if a[0] == 'call']
    for i, (rec, act) in enumerate(zip(calls, call_acts)):
        out['n'] += 1
        case = dict(kind=label, actions=acts, call_index=i, maxcache=maxcache)
        fresh_out, fresh_text, fresh_diff = oracle.get(act[1], rec['star'], rec['regs'])
        why = None
        if rec['out'] != fresh_out:
            why = 'history dependence: outcome %s differs from the same call made first in a fresh interpreter %s' \
                  % (json.dumps(rec['out'])[:300], json.dumps(fresh_out)[:300])
        elif rec['text'] != fresh_text:
            why = 'history dependence: error text differs from the fresh interpreter'
        elif preds is not None:
            pred = B.strip_pred(preds[i]['out'])
            if pred != rec['out']:
                why = 'outcome %s differs from the specification\'s prediction %s' \
                      % (json.dumps(rec['out'])[:300], json.dumps(pred)[:300])
        if why is None and B.has_log(act[1]):
            v_out, v_text, _ = oracle.get(B.unlogged(act[1]), rec['star'], rec['regs'])
            if (v_out, v_text) != (fresh_out, fresh_text):
                why = 'rendering the inner call\'s error (str(e)) before re-raising it changed the outer call: ' \
                      'outcome / error text differ from the same call without the str()'
        if why is None and rec['diff']:
            why = 'frame condition: %s changed (structure or identity) during the call' % rec['diff']
        elif why is None and fresh_diff:
            why = 'frame condition (fresh interpreter): %s changed during the call' % fresh_diff
        if why:
            out['bad'].append(dict(why=why, case=dict(case, observed=rec['out'], fresh=fresh_out,
                                                      text=rec['text'][:600], fresh_text=fresh_text[:600])))
        elif preds is not None:
            p = preds[i]
            want = dict(pct=p['pct'], pcf=p['pcf'], tck=sorted(p['tck']))
            got = dict(rec['cache'], tck=sorted(rec['cache']['tck'])) if rec['cache'] is not None else None
            if got is not None and (want != got or p['nwarn'] != rec['nwarn']):
                out['drift'].append(dict(want=want, got=got, nwarn=[p['nwarn'], rec['nwarn']], actions=acts, call_index=i))
        if rec['out']['ok'] is False or rec['out']['obs'] or len(acts) > 1:
            out['nontrivial'] += 1
    return {'events': events, 'maxcache': maxcache, 'slack': 0}


def worker(states):
    pool, maxhist, maxcache = _CFG['pool'], _CFG['maxhist'], _CFG['maxcache']
    out = dict(n=0, hist=0, nontrivial=0, bad=[], drift=[], rows=[], samples=[])
    oracle = _CFG.setdefault('oracle', Oracle())
    for st in states:
        hist = st['hist']
        nacts = sum(1 for ev in hist if ev['e'] != 'end')
        if nacts != maxhist:
            continue                              # prefixes are covered by the maximal histories
        out['hist'] += 1
        # the containers of targets / scopes in one of three spellings (plain, falsy subclasses holding
        # data, list / OrderedDict subclasses with overridden access): the law does not distinguish them
        spelling = ('plain', 'plain', 'falsy', 'sub')[len(json.dumps(hist)) % 4]
        acts = [(a[0], dict(a[1], spelling=spelling)) if a[0] == 'call' else a for a in _actions_of(hist, pool)]
        preds = [ev for ev in hist if ev['e'] == 'end']
        row = check_history(acts, preds, maxcache, oracle, out, 'tlc-history')
        if len(out['rows']) < _CFG['rows_per_chunk']:
            out['rows'].append(row)
        if not out['samples'] and len(preds) >= 2:
            out['samples'].append(dict(kind='tlc-history', hist=[{k: v for k, v in ev.items() if k in ('e', 'c', 'r')}
                                                                 for ev in hist if ev['e'] != 'end'],
                                       predicted=[B.strip_pred(p['out']) for p in preds]))
    return out


def map_dump(module, constants, wk, procs=None):
    """like vlib.map_states, but the TLC result (it carries the printed pool) is available
    before the workers are forked"""
    scratch = tempfile.mkdtemp(prefix='glomverif_c06_')
    try:
        path = os.path.join(scratch, 'states')
        res = vlib.run_tlc(module, constants=constants, extra=('-dump', path), heap=_CFG.get('heap', '3g'), timeout=3000)
        vlib.tlc_must_pass(res, module)
        pools = [j['pool'] for j in res['json'] if 'pool' in j]
        if not pools:
            raise vlib.MachineryError('TLC did not print the pool')
        _CFG['pool'] = pools[0]
        vlib._WORKER = wk
        with mp.get_context('fork').Pool(procs or vlib.NCPU) as p:
            results = list(p.imap_unordered(vlib._chunk_worker, vlib._dump_chunks(path + '.dump', 1 << 20)))
        return res, results
    finally:
        vlib._WORKER = None
        shutil.rmtree(scratch, ignore_errors=True)


# ---- code -> spec: random calls, long random histories ---------------------------------------
SEGS = ['a', 'b', 'x', '*', '0', '1', '-1', '2']


def rand_scalar(rng):
    """small ints (0 often), '' and short strings, None, booleans, objects with a hostile __eq__"""
    r = rng.random()
    if r < 0.5:
        return {'k': 'int', 'i': rng.choice([0, 0, 1, 1, 2, 3, 4, 5])}
    if r < 0.65:
        return {'k': 'str', 's': rng.choice(['', 's', 'uv'])}
    if r < 0.8:
        return {'k': 'bool', 'b': rng.random() < 0.5}
    if r < 0.9:
        return {'k': 'none'}
    return {'k': 'hostile', 'n': rng.randint(1, 4)}


def rand_value(rng, depth=0):
    r = rng.random()
    if depth >= 2 or r < 0.3:
        return rand_scalar(rng)
    if r < 0.36:
        return {'k': 'tuple', 'v': [rand_value(rng, depth + 1) for _ in range(rng.randint(0, 2))]}
    if r < 0.6:
        keys = rng.sample(['a', 'b', '*', '0', 'opts'], rng.randint(0, 3))
        return {'k': 'dict', 'v': [[{'k': 'str', 's': k}, rand_value(rng, depth + 1)] for k in keys]}
    if r < 0.8:
        return {'k': 'list', 'v': [rand_value(rng, depth + 1) for _ in range(rng.randint(0, 3))]}
    if r < 0.95:
        keys = rng.sample(['a', 'b'], rng.randint(0, 2))
        return {'k': 'obj', 'cls': 'A', 'v': [[{'k': 'str', 's': k}, rand_value(rng, depth + 1)] for k in keys]}
    return {'k': 'none'}


def rand_path(rng):
    segs = [rng.choice(SEGS) for _ in range(rng.choice([1, 1, 2, 2, 3]))]
    return {'op': 'path', 'text': '.'.join(segs), 'segs': segs}


def rand_spec(rng, depth, sids, last=True, nest=0, inref=False):
    """random spec from the grammar of GlomCalls; mode wrappers (fill, group) only where they
    are not a non-last tuple step (that is C08's subject)"""
    r = rng.random()
    if depth <= 0 or r < 0.22:
        return rand_path(rng)
    if r < 0.34:
        return {'op': 'probe', 'f': rng.choice(['id', 'id', 'id', 'inc', 'inc', 'inc', 'boom', 'boomA', 'boomB']), 'r': False}
    if r < 0.40:
        return {'op': 'read', 'name': rng.choice(B.NAME_ORDER)}
    if r < 0.54:
        n = rng.randint(1, 3)
        return {'op': 'tuple', 'c': [rand_spec(rng, depth - 1, sids, last=(i == n - 1), nest=nest, inref=inref) for i in range(n)]}
    if r < 0.62:
        keys = rng.sample(['p', 'q', 'r'], rng.randint(1, 3))
        return {'op': 'dict', 'items': [[k, rand_spec(rng, depth - 1, sids, nest=nest, inref=inref)] for k in keys],
                'sp': rng.choice(['dict', 'dict', 'invoke'])}
    if r < 0.72:
        return {'op': 'each', 'sp': rng.choice(['list', 'list', 'iter', 'iter', 'uniq']), 'c': rand_spec(rng, depth - 1, sids, nest=nest, inref=inref)}
    if r < 0.82:
        d = rng.choice([{'has': False, 'v': {'k': 'none'}, 's': []}, {'has': True, 'v': {'k': 'list', 'v': []}, 's': []},
                        {'has': True, 'v': {'k': 'int', 'i': 0}, 's': []}, {'has': True, 'v': {'k': 'none'}, 's': []},
                        {'has': True, 'v': {'k': 'none'}, 's': [rand_arglist(rng, sids, nest)]},
                        {'has': True, 'v': {'k': 'none'}, 's': [rand_arglist(rng, sids, nest)]}])
        return {'op': 'coal', 'c': [rand_spec(rng, depth - 1, sids, nest=nest, inref=inref) for _ in range(rng.randint(1, 3))], 'd': d}
    if r < 0.88:
        return {'op': 'bind', 'name': rng.choice(B.NAME_ORDER), 'c': rand_spec(rng, depth - 1, sids, nest=nest, inref=inref)}
    if r < 0.895:
        return {'op': 'acc', 'kind': 'fold', 'f': rng.choice(['id', 'inc', 'inc', 'boom'])}
    if r < 0.897:
        return {'op': 'scopelit'}
    if r < 0.9:
        return {'op': 'tplus', 'v': {'k': 'list', 'v': [{'k': 'int', 'i': rng.randint(0, 9)}]}}
    if r < 0.905:
        return {'op': 'refuse', 'name': rng.choice(['n', 'm'])} if not inref else rand_path(rng)
    if r < 0.91 and not inref:
        return {'op': 'refdef', 'name': rng.choice(['n', 'm']), 'c': rand_spec(rng, depth - 1, sids, nest=nest, inref=True)}
    if r < 0.915:
        return {'op': 'lastvar', 'init': rng.randint(0, 3), 'y': rng.random() < 0.5}
    if r < 0.93:
        return {'op': 'invoke', 'c': rng.choice([{'op': 'path', 'text': 'opts', 'segs': ['opts']}, rand_path(rng)]),
                'k': rng.choice(['k', 'a', 'z']), 'v': {'k': 'int', 'i': rng.randint(0, 9)}}
    if r < 0.96 and nest < 2:
        return {'op': 'nest', 'call': rand_call(rng, sids, depth - 1, nest + 1), 'log': rng.random() < 0.5}
    if not last:
        return rand_path(rng)
    if rng.random() < 0.5:
        return {'op': 'acc', 'kind': 'group', 'f': rng.choice(['id', 'inc', 'inc', 'boom'])}
    return {'op': 'fill', 'c': rand_spec(rng, depth - 1, sids, nest=nest, inref=inref)}


def rand_arglist(rng, sids, nest):
    """a list argument whose elements are sub-specs that argument mode evaluates"""
    def elem():
        r = rng.random()
        if r < 0.5:
            return {'op': 'probe', 'f': rng.choice(['id', 'id', 'inc']), 'r': False}
        if r < 0.85 or nest >= 2:
            return {'op': 'read', 'name': rng.choice(B.NAME_ORDER)}
        return {'op': 'nest', 'call': rand_call(rng, sids, 1, nest + 1), 'log': rng.random() < 0.5}
    return {'op': 'arglist', 'c': [elem() for _ in range(rng.randint(1, 3))]}


def rand_call(rng, sids, depth=3, nest=0):
    sids[0] += 1
    sc = [[k, {'k': 'int', 'i': rng.randint(6, 9)}] for k in B.NAME_ORDER if rng.random() < 0.3]
    via = rng.choice(['glommer', 'spec', 'spec'] + ['glom'] * 12)
    spelling = rng.choice(['plain', 'plain', 'falsy', 'sub'])
    if rng.random() < 0.08:      # a one-shot iterator as target of a spec that consumes its target exactly once
        spec = rng.choice([{'op': 'each', 'sp': rng.choice(['list', 'iter', 'uniq']), 'c': rand_spec(rng, depth - 1, sids, nest=nest)},
                           {'op': 'acc', 'kind': rng.choice(['group', 'fold']), 'f': rng.choice(['id', 'inc'])},
                           {'op': 'lastvar', 'init': 0, 'y': False}])
        target = {'k': 'gen', 'v': [rand_scalar(rng) for _ in range(rng.randint(0, 3))]}
        return {'t': target, 'sc': [] if via == 'glommer' else sc, 'sid': sids[0], 'spec': spec, 'via': via, 'spelling': spelling}
    return {'t': rand_value(rng), 'sc': [] if via == 'glommer' else sc, 'sid': sids[0],
            'spec': rand_spec(rng, depth, sids, nest=nest), 'via': via, 'spelling': spelling}


def rand_history(rng, length):
    sids = [0]
    pool = [rand_call(rng, sids) for _ in range(rng.randint(3, 8))]
    # the same spec object on another target
    if rng.random() < 0.7:
        c = dict(rng.choice(pool))
        c['t'] = rand_value(rng)
        pool.append(c)
    regs = list(B.REGS)
    rng.shuffle(regs)
    acts = []
    for _ in range(length):
        r = rng.random()
        if r < 0.12:
            acts.append(('toggle',))
        elif r < 0.18 and regs:
            acts.append(('reg', regs.pop()))
        else:
            acts.append(('call', rng.choice(pool)))
    return acts


def _random_chunk(args):
    seed, n, length = args
    rng = random.Random(seed)
    out = dict(n=0, hist=0, nontrivial=0, bad=[], drift=[], rows=[], samples=[])
    oracle = Oracle()
    for _ in range(n):
        acts = rand_history(rng, rng.randint(max(2, length // 3), length))
        out['hist'] += 1
        out['rows'].append(check_history(acts, None, TRACE_MAXCACHE, oracle, out, 'random-history'))
    return out


def random_histories(seed, n, length):
    chunks = [(seed * 1000 + i, max(1, n // (vlib.NCPU * 2)), length) for i in range(vlib.NCPU * 2)]
    with mp.get_context('fork').Pool(vlib.NCPU) as p:
        return list(p.imap_unordered(_random_chunk, chunks))


# ---- real overflow (> 10000 distinct path strings) ---------------------------------------------
def _overflow():
    warnings.simplefilter('ignore')
    limit = getattr(glom.core.Path, '_MAX_CACHE', None)
    n = (limit if type(limit) is int and limit <= 200000 else 10000) + 40     # > 10 000 distinct path strings
    target = {'k%d' % i: i for i in range(n)}
    target['*'] = -1
    bad, drift = [], []
    for star in (True, False):
        glom.core.PATH_STAR = star
        for i in range(n):
            if glom.glom(target, 'k%d' % i) != i:
                bad.append(('fill', star, i))
        cache = B._path_cache()      # (mechanism-level, only when observable: the memo stops growing)
        if cache is not None and type(limit) is int and len(cache[star]) > limit + 1:
            drift.append(('memo grew beyond _MAX_CACHE + 1', star, len(cache[star])))
        # overflowed: outcomes must be what they are in a cold interpreter
        want = -1 if not star else sorted(target.values())
        got = glom.glom(target, '*')
        got = sorted(got) if star else got
        if got != want:
            bad.append(('star after overflow', star, repr(got)[:80]))
        for i in (0, n - 1, n // 2):
            if glom.glom(target, 'k%d' % i) != i:
                bad.append(('after overflow', star, i))
    glom.core.PATH_STAR = True
    got = glom.glom(target, '*')
    if sorted(got) != sorted(target.values()):
        bad.append(('toggle back after overflow', repr(got)[:80]))
    return bad, drift, n


# ---- fresh subprocess cross-check of the fork shortcut -------------------------------------------
_SUB = r'''
import json, sys
sys.path.insert(0, %r)
import c06_build as B, c06
job = json.loads(sys.stdin.read())
out, text, diff = c06._fresh_call(job['call'], job['star'], job['regs'])
print(json.dumps(dict(out=out, text=text, diff=diff)))
'''


def subprocess_crosscheck(check, pool, oracle, n):
    env = dict(os.environ)
    here = os.path.dirname(os.path.abspath(__file__))
    jobs = [(c, star, regs) for c in pool for star in (True, False) for regs in ([], ['Aget1'])][:n]
    for call, star, regs in jobs:
        p = subprocess.run([sys.executable, '-c', _SUB % here], input=json.dumps(dict(call=call, star=star, regs=regs)),
                           capture_output=True, text=True, env=env, timeout=1800)
        if p.returncode != 0:
            raise vlib.MachineryError('fresh subprocess failed: ' + p.stderr[-800:])
        got = json.loads(p.stdout.strip().splitlines()[-1])
        want = oracle.get(call, star, regs)
        if (got['out'], got['text'], got['diff']) != (want[0], want[1], want[2]):
            raise vlib.MachineryError('forked pristine child and spawned interpreter disagree on %s' % json.dumps(call)[:200])
    return len(jobs)


# ---- driver ----------------------------------------------------------------------------------------
def match_finding(f, case):
    return False


def canaries(rows):
    """corrupted copies of recorded sessions: the Trace module must reject each of them
    (guards against a validator that accepts everything).  Kinds: a wrong call value (always),
    a flipped cache membership result and a wrong memoized handler (when such events exist -
    their presence depends on how the library spells its cache accesses)."""
    import copy
    out, kinds = [], {}
    for row in rows:
        evs = row['events']
        idx = {'pc_has': next((i for i, e in enumerate(evs) if e['e'] == 'has'), None),
               'value': next((i for i, e in enumerate(evs) if e['e'] == 'call' and e['out']['ok']), None),
               'tc_set_value': next((i for i, e in enumerate(evs) if e['e'] == 'tset'), None)}
        for kind, i in idx.items():
            if i is None or kinds.get(kind, 0) >= 5:   # several candidates: a call may be outside the model
                continue
            c = copy.deepcopy(row)
            c['events'] = c['events'][:i + 1]
            if kind == 'pc_has':
                c['events'][i]['res'] = not c['events'][i]['res']
            elif kind == 'value':
                c['events'][i]['out']['v'] = {'k': 'int', 'i': 999}
            else:
                c['events'][i]['h'] = 'bogus'
            c['canary'] = kind
            kinds[kind] = kinds.get(kind, 0) + 1
            out.append(c)
        if all(kinds.get(k, 0) >= 5 for k in idx):
            break
    return out


MECHANISM_CLAUSES = ('pc_', 'tc_', 'warned_again')
LAW_EVENTS = ('call', 'toggle', 'reg')


def trace_validate(check, rows, label, chunk, module='Trace_C06'):
    """rows -> Trace module.  A row rejected on a LAW clause (a call's outcome / value / error
    class / observations is not that of the isolated call) is a violation.  A row rejected on a
    MECHANISM clause (a cache hit / miss / stored value is not what the model's cache state
    dictates) is mechanism drift - the library may spell its caches differently - and is validated
    again with the cache events removed, so that every call outcome is still judged.  Rows with
    calls outside the modelled fragment are skipped-with-reason; corrupted canary rows must be
    rejected."""
    skipped = 0
    if not rows:
        return 0
    can = canaries(rows)
    if not any(c['canary'] == 'value' for c in can) and not check.violations:
        raise vlib.MachineryError('no recorded session suitable for the corrupted-row canaries')
    caught = set()
    again = []

    def judge(row, j, second):
        nonlocal skipped
        if j['clause'] == 'skipped':
            skipped += 1
            return
        if not second and j['clause'].startswith(MECHANISM_CLAUSES):
            check.extra.setdefault('mechanism_drift_clauses', {})
            check.extra['mechanism_drift_clauses'][j['clause']] = check.extra['mechanism_drift_clauses'].get(j['clause'], 0) + 1
            again.append(dict(row, events=[e for e in row['events'] if e['e'] in LAW_EVENTS]))
            return
        ev = row['events'][j['at'] - 1] if 0 < j['at'] <= len(row['events']) else None
        check.violation(dict(kind='trace', clause=j['clause'], event_index=j['at'], event=ev, row=row),
                        'recorded session rejected by the specification: clause %s at event %s' % (j['clause'], j['at']),
                        matcher=match_finding)
    for row, j in vlib.validate_rows(check, module, rows + can, label, chunk=chunk, workers_parallel=vlib.NCPU):
        if 'canary' in row:
            if j['clause'] == row['canary']:
                caught.add(row['canary'])
            continue
        judge(row, j, False)
    if again:
        for row, j in vlib.validate_rows(check, module, again, label + '-law-only', chunk=chunk, workers_parallel=vlib.NCPU):
            judge(row, j, True)
    if caught != {c['canary'] for c in can} and not check.violations:
        raise vlib.MachineryError('corrupted recorded rows were not rejected: %s' % sorted({c['canary'] for c in can} - caught))
    check.extra.setdefault('corrupted_rows_rejected', 0)
    check.extra['corrupted_rows_rejected'] += len(can)
    return skipped


MUTANTS = {'nostarkey': 'NonInterference', 'noreset': 'NonInterference', 'acconspec': 'NonInterference'}


def main(tier, seed):
    _assert_pristine()
    check = vlib.Check(PROP, tier, seed)
    try:
        return _main(check, tier, seed)
    except vlib.MachineryError as e:
        if not check.violations:
            raise
        # a machinery problem after violations were found must not mask them
        print('MACHINERY-PROBLEM after violations were found: %s' % str(e)[:300])
        return check.finish(rule='incomplete run: machinery problem after violations were found', exhaustive=False)


def _main(check, tier, seed):
    configs = {'quick': [dict(PoolFrom=1, PoolSize=10, MaxHist=3, MaxToggles=1, MaxRegs=1),
                         dict(PoolFrom=11, PoolSize=4, MaxHist=3, MaxToggles=1, MaxRegs=1),
                         dict(PoolFrom=15, PoolSize=6, MaxHist=3, MaxToggles=1, MaxRegs=1),
                         dict(PoolFrom=21, PoolSize=6, MaxHist=3, MaxToggles=1, MaxRegs=1)],
               'thorough': [dict(PoolFrom=1, PoolSize=14, MaxHist=3, MaxToggles=2, MaxRegs=1),
                            dict(PoolFrom=11, PoolSize=22, MaxHist=3, MaxToggles=1, MaxRegs=1),
                            dict(PoolFrom=1, PoolSize=9, MaxHist=4, MaxToggles=1, MaxRegs=1)]}[tier]
    rows, drift, results = [], [], []
    _CFG['heap'] = {'quick': '3g', 'thorough': '8g'}[tier]     # (a modest heap: the machine is shared)
    for consts in configs:
        _CFG.update(maxhist=consts['MaxHist'], maxcache=1, rows_per_chunk=40)
        res, part = map_dump('MC_C06', dict(consts, Mutant='""'), worker)
        check.add_tlc(res, 'MC_C06 %s' % consts)
        results.extend(part)
    consts = configs
    for r in results:
        check.cov['evaluations'] += r['n']
        check.cov['distinct_nontrivial'] += r['nontrivial']
        check.validated(r['hist'] - len({json.dumps(b['case']['actions']) for b in r['bad']}))
        rows.extend(r['rows'])
        drift.extend(r['drift'])
        for s_ in r['samples']:
            check.sample(s_)
        for b in r['bad']:
            check.violation(b['case'], b['why'], matcher=match_finding)
    nhist = sum(r['hist'] for r in results)
    if nhist == 0:
        raise vlib.MachineryError('no maximal history was replayed')
    # recorded sessions of replayed TLC histories (sample) -> Trace_C06
    skipped = trace_validate(check, rows[:600], 'replayed', 100)
    if skipped:
        raise vlib.MachineryError('%d TLC-chosen histories fall outside the modelled fragment' % skipped)
    # long random histories
    nrand, length = {'quick': (160, 30), 'thorough': (1200, 60)}[tier]
    rrows = []
    for r in random_histories(seed, nrand, length):
        check.cov['evaluations'] += r['n']
        check.cov['distinct_nontrivial'] += r['nontrivial']
        rrows.extend(r['rows'])
        for b in r['bad']:
            check.violation(b['case'], b['why'], matcher=match_finding)
    check.extra['random_histories_with_unmodelled_calls_skipped'] = trace_validate(check, rrows, 'random-histories', {'quick': 30, 'thorough': 100}[tier])
    check.sample(dict(kind='random-history', events=[e for e in rrows[0]['events'] if e['e'] in ('call', 'toggle', 'reg')][:3]), limit=6)
    check.extra['random_histories'] = len(rrows)
    check.extra['tlc_histories_replayed'] = nhist
    check.extra['mechanism_drift'] = drift[:5]
    check.extra['mechanism_drift_count'] = len(drift)
    # vacuity: the same histories at the finest grain; every step kind and branch must occur
    vres = vlib.run_tlc('MC_C06', cfg='MC_C06_fine', constants=dict(PoolFrom=1, PoolSize=14, MaxHist=2, MaxToggles=2, MaxRegs=2, Mutant='""'), heap='3g')
    vlib.tlc_must_pass(vres, 'MC_C06 fine-grained')
    check.add_tlc(vres, 'MC_C06 fine-grained (vacuity)')
    cov = B.mechanism_coverage([j['hist'] for j in vres['json'] if 'hist' in j])
    B.require_coverage(cov)
    check.extra['mechanism_coverage'] = cov
    # the spec-object zoo: every stateful constructor as ONE object, reused, results scribbled over
    c06_zoo.run_c06(check, tier, seed, match_finding)
    check.extra['mechanism_unobservable'] = in_child(B.observability)
    # subprocess cross-check of the fork shortcut
    check.extra['fresh_subprocess_crosschecks'] = subprocess_crosscheck(
        check, _CFG['pool'], Oracle(), {'quick': 6, 'thorough': 40}[tier])
    if tier == 'thorough':
        bad, odrift, n = in_child(_overflow)
        check.extra['real_overflow_paths'] = n
        check.extra['real_overflow_mechanism_drift'] = odrift
        check.cov['evaluations'] += 2 * n
        for b in bad:
            check.violation(dict(kind='overflow', detail=b), 'real cache overflow changed an outcome: %r' % (b,),
                            matcher=match_finding)
        # spec mutants: the law must be violated
        mres = {}
        for m, law in MUTANTS.items():
            r = vlib.run_tlc('MC_C06', cfg='MC_C06_mutant', constants=dict(PoolFrom=11, PoolSize=22, MaxHist=3, MaxToggles=2, MaxRegs=2, Mutant='"%s"' % m))
            mres[m] = r['violated']
            if r['violated'] != law:
                raise vlib.MachineryError('spec mutant %s: expected %s violated, TLC says %s' % (m, law, r['violated']))
        r = vlib.run_tlc('MC_C06', cfg='MC_C06_mutant_frame', constants=dict(PoolFrom=11, PoolSize=22, MaxHist=3, MaxToggles=2, MaxRegs=2, Mutant='"acconspec"'))
        mres['acconspec/frame'] = r['violated']
        if r['violated'] != 'FrameCondition':
            raise vlib.MachineryError('spec mutant acconspec: FrameCondition not violated (%s)' % r['violated'])
        check.extra['spec_mutants_violate'] = mres
    check.extra['constants'] = dict(configs=configs, MaxCache=1)
    check.assumptions += [
        'PATH_STAR is toggled and register() is called only between calls (the property quantifies over histories)',
        'the warning about "*" when PATH_STAR is off is not part of the outcome (warnings filter is not "error")',
        'mode wrappers (Fill, Group) are never a non-last step of a tuple (that leak is C08\'s subject)',
        'wildcards are applied to dicts and attribute objects only; "**", string iteration and big ints are outside the model (rows skipped)',
        'a pristine child forked from the just-imported parent stands for a fresh interpreter (cross-checked against spawned interpreters)',
        'TLC, the Json community module and the value / spec codec are trusted']
    # outcome / trace differences first, frame-condition-only reports after them
    check.violations.sort(key=lambda v: 0 if 'differ' in v['why'] else 1)
    return check.finish(rule='TLC enumerates every history of <= MaxHist actions (pool calls, PATH_STAR toggles, registrations); '
                        'every maximal history is performed in one interpreter and each call compared with the prediction, with the '
                        'same call made first in a fresh interpreter, and with deep snapshots of target / spec / scope; long random '
                        'histories likewise and validated by TLC; non-trivial = the call fails, makes observations or has a predecessor',
                        exhaustive=True)


def replay(path):
    with open(path) as f:
        v = json.load(f)
    case = v['case']
    print('why:', v['why'])
    if case.get('kind') == 'zoo':
        import c06_zoo
        return c06_zoo.replay_case(case)
    if case.get('kind') in ('tlc-history', 'random-history'):
        acts = [tuple(a) for a in case['actions']]
        out = dict(n=0, hist=0, nontrivial=0, bad=[], drift=[], rows=[], samples=[])
        check_history(acts, None, case.get('maxcache', 1), Oracle(), out, case['kind'])
        for b in out['bad']:
            print('still disagrees:', b['why'][:600])
        if not out['bad']:
            print('no disagreement with the fresh interpreter any more (%d calls)' % out['n'])
        return 1 if out['bad'] else 0
    print(json.dumps(case)[:2000])
    return 1
