"""C08  Modes apply exactly to the wrapped spec; Fill and argument mode keep shape.

(a) frames: spec/MC_C08.tla enumerates every nesting of {Auto, Fill, Match} wrappers at every step
position of tuples, Pipes, dict values, Coalesce branches, Switch cases and match-dict entries with
mode probes everywhere.  TLC checks that the transcribed mechanism (GlomFrames: child copies MODE
from the parent map, chain_child restores it) satisfies the lexical law in every intermediate frame
table, and that the historic mechanism (mutant "modeleak") violates it.  Every tree is replayed with
real glom specs: each probe evaluates a string, a tuple, a list and a dict and reports how they
were interpreted; that must be the lexical mode.  The scope events of the run (GLOM_VERIF hook:
enter with mode / argument-mode flag, chain) must be the model's action sequence (else DRIFT).
code -> spec: seeded random deeper trees are run, their probe logs and enter events are validated
by TLC (spec/Trace_C08.tla) against the lexical law and the mechanism.
(b) shape: see c08 shape cases below (Fill / argument mode rebuild containers with the same type
and shape, including cyclic argument containers) -- GlomShape laws checked by TLC and replayed.
"""
import json
import zlib
import random

import glom

import frames
import vlib

PROP = 'C08'


def compare_acts(model_acts, events):
    """mechanism-level comparison: enter / chain sequence of the model vs the hook events"""
    m = [a for a in model_acts if a['a'] in ('enter', 'chain')]
    e = [a for a in events if a['a'] in ('enter', 'chain')]
    if len(m) != len(e):
        return 'model has %d enter/chain actions, observed %d' % (len(m), len(e))
    for i, (x, y) in enumerate(zip(m, e)):
        if x['a'] != y['a']:
            return 'action %d: model %s observed %s' % (i, x['a'], y['a'])
        if x['a'] == 'enter':
            for f in ('f', 'par', 'path', 'mode', 'minmode'):
                if x[f] != y[f]:
                    return 'enter %d field %s: model %r observed %r' % (i, f, x[f], y[f])
        else:
            if (x['from'], x['to']) != (y['from'], y['to']):
                return 'chain %d: model %s->%s observed %s->%s' % (i, x['from'], x['to'], y['from'], y['to'])
    return None


def worker(states):
    out = dict(n=0, nontrivial=0, bad=[], drift=[], samples=[])
    for st in states:
        if st['phase'] != 1 or st['k'] != 0:
            continue
        tree, run = st['tree'], st['run']
        obs = frames.execute(tree, [])
        out['n'] += 1
        nontrivial = len(run['law']) >= 2
        out['nontrivial'] += nontrivial
        case = dict(tree=tree, law=run['law'], observed=[[e['p'], e['v']] for e in obs['log']], text=repr(obs['spec']), run=run)
        why = None
        if obs['out'] != run['out']:
            why = 'call outcome %s (%r), expected %s' % (obs['out'], obs['error'], run['out'])
        elif [e['p'] for e in obs['log']] != [e['p'] for e in run['log']]:
            why = 'probes ran %s, expected %s' % ([e['p'] for e in obs['log']], [e['p'] for e in run['log']])
        else:
            for e, law in zip(obs['log'], run['law']):
                if e.get('what') == 'call':      # a plain callable cannot see the mode: that it was called (in order) is the observation
                    continue
                if e['v'] != law:
                    why = 'probe at %s interpreted containers as %s, lexical mode is %s (%s)' % (e['p'], e['v'], law, e['raw'])
                    break
        if not why and zlib.crc32(json.dumps(tree, sort_keys=True).encode()) % 4 == 0:
            # on a deterministic quarter of the trees: the same probes made from inside the key spec of
            # First (a spec evaluated under the scope -- and so in the mode -- of the position it stands at)
            obs2 = frames.execute(tree, [], hook=False, flavour='firstkey')
            out['n'] += 1
            if obs2['out'] != run['out']:
                why = 'probing from inside a First key: call outcome %s (%r), expected %s' % (obs2['out'], obs2['error'], run['out'])
            elif [e['p'] for e in obs2['log']] != [e['p'] for e in run['log']]:
                why = 'probing from inside a First key: probes ran %s, expected %s' % ([e['p'] for e in obs2['log']], [e['p'] for e in run['log']])
            else:
                for e, law in zip(obs2['log'], run['law']):
                    if e.get('what') == 'call':
                        continue
                    if e['v'] != law:
                        why = 'probe at %s inside a First key interpreted containers as %s, lexical mode is %s (%s)' % (e['p'], e['v'], law, e['raw'])
                        break
        if why:
            out['bad'].append(dict(why='%s in %s' % (why, case['text']), case=case))
            continue
        d = compare_acts(run['acts'], obs['events'])
        if d:
            out['drift'].append(dict(why=d, text=case['text']))
        elif nontrivial and len(out['samples']) < 1:
            out['samples'].append(case)
    return out




def replay(path):
    """re-run one stored case (bin/check C08 --replay <file>) against the library as it is now"""
    import json
    blob = json.load(open(path))
    st = _state_of(blob['case'])
    if st is None:
        print('REPLAY property=C08: %s holds a recorded observation, not a case of the enumerated universe; it was rejected with: %s'
              % (path, str(blob.get('why'))[:300]))
        print('(the file alone does not allow the case to be re-executed: re-run bin/check C08 to observe the library again)')
        return 2
    out = _replay_states([st])
    if out['bad']:
        print('VIOLATION property=C08 replay=%s' % path)
        print('  why: %s' % (str(out['bad'][0]['why'])[:400],))
        return 1
    print('REPLAY property=C08: the stored case agrees with the specification now (%s)' % path)
    return 0


def _state_of(case):
    if 'tree' in case and 'run' in case:
        return dict(tree=case['tree'], run=case['run'], phase=1, k=0)
    return None


def _replay_states(states):
    return worker(states)


# ---- code -> spec ----------------------------------------------------------------------------------
def rand_tree(rng, depth, mode='AUTO'):
    P = {'k': 'probe', 'a': '', 'c': []}
    if depth == 0 or rng.random() < 0.2:
        if mode in ('AUTO', 'FILL') and rng.random() < 0.25:
            return {'k': 'call', 'a': '', 'c': []}      # a plain callable: called in these modes
        return P
    kinds = ['auto', 'fill', 'match', 'group', 'pipe', 'pipe', 'coal', 'switch']
    if mode not in ('MATCH', 'GROUP'):
        kinds += ['tup', 'tup', 'dict']
    elif mode == 'MATCH':
        kinds += ['mdict', 'mdict']
    k = rng.choice(kinds)

    def sub(m=mode):
        return rand_tree(rng, depth - 1, m)
    if k == 'group' and rng.random() < 0.3:
        return {'k': 'group', 'a': '', 'c': [{'k': 'stop', 'a': '', 'c': []}]}
    if k in ('auto', 'fill', 'match', 'group'):
        return {'k': k, 'a': '', 'c': [sub({'auto': 'AUTO', 'fill': 'FILL', 'match': 'MATCH', 'group': 'GROUP'}[k])]}
    if k in ('tup', 'pipe', 'dict'):
        kids = [sub() for _ in range(rng.randint(1, 3))]
        if k != 'dict' and mode == 'AUTO' and rng.random() < 0.2:
            # a wildcard step whose argument spec fails for every element, somewhere in the chain
            kids.insert(rng.randint(0, len(kids) - 1), {'k': 'starq', 'a': '', 'c': []})
        return {'k': k, 'a': '', 'c': kids}
    if k == 'coal':
        return {'k': k, 'a': '', 'c': [sub()]}
    if k == 'switch':
        return {'k': k, 'a': '', 'c': [sub(), sub()]}
    key = sub()
    while has_dict(key) or has_kind(key, 'group') or has_kind(key, 'starq'):      # (key result hashable: a wildcard step answers a new list)
        key = sub()
    return {'k': 'mdict', 'a': '', 'c': [key, sub()]}


def has_kind(t, k):
    return t['k'] == k or any(has_kind(c, k) for c in t['c'])


def has_dict(t):
    return t['k'] in ('dict', 'mdict') or any(has_dict(c) for c in t['c'])


def record(check, n, seed):
    rng = random.Random(seed)
    rows = []
    for _ in range(n):
        tree = rand_tree(rng, rng.randint(3, 5))
        obs = frames.execute(tree, [])
        rows.append(dict(tree=tree, out=obs['out'], log=[{'p': e['p'], 'v': 'CALLED' if e.get('what') == 'call' else e['v']} for e in obs['log']],
                         enters=[{'f': e['f'], 'par': e['par'], 'path': e['path'], 'mode': e['mode'], 'minmode': e['minmode']}
                                 for e in obs['events'] if e['a'] == 'enter'],
                         text=repr(obs['spec'])))
    rejects = vlib.validate_rows(check, 'Trace_C08', rows, 'random-trees', chunk=1500)
    ndrift = 0
    for row, rej in rejects:
        if rej['clause'].startswith('drift'):
            ndrift += 1
            continue
        check.violation(dict(tree=row['tree'], text=row['text'], log=row['log'], clause=rej['clause']),
                        'recorded execution rejected by the specification (%s): %s' % (rej['clause'], row['text']),
                        matcher=match_finding)
    check.extra['drift_recorded'] = ndrift
    check.sample(dict(kind='recorded', text=rows[0]['text'], log=rows[0]['log']), limit=6)
    return len(rows)


def match_finding(f, case):
    return False


def repo_test_traces(check):
    """code -> spec on the repository's own tests: run them with the hook recording scope events and let
    TLC validate every scope tree against the dynamic mode / chaining discipline (spec/Trace_Frames.tla)"""
    import json
    import os
    import shutil
    import subprocess
    import tempfile
    repo = os.environ.get('GLOM_REPO', '/repo')
    scratch = tempfile.mkdtemp(prefix='glomverif_repotests_')
    try:
        out = os.path.join(scratch, 'rows.ndjson')
        env = dict(os.environ, GLOM_VERIF='1', VERIF_TRACE_OUT=out,
                   PYTHONPATH=repo + os.pathsep + os.path.join(vlib.VERIF, 'harness'))
        p = subprocess.run(['/venv/bin/python', '-m', 'pytest', '-q', '-x', '-p', 'no:cacheprovider', '-p', 'verif_trace_plugin',
                            '--deselect', 'glom/test/test_cli.py::test_main', 'glom/test'],
                           cwd=repo, env=env, capture_output=True, text=True, timeout=900)
        if not os.path.exists(out):
            raise vlib.MachineryError('the repository tests did not produce a trace file:\n' + p.stdout[-800:] + p.stderr[-800:])
        rows = [json.loads(l) for l in open(out)]
    finally:
        shutil.rmtree(scratch, ignore_errors=True)
    if len(rows) < 100:
        raise vlib.MachineryError('only %d scope trees recorded from the repository tests' % len(rows))
    rejects = vlib.validate_rows(check, 'Trace_Frames', rows, 'repo-tests', chunk=200)
    for row, rej in rejects:
        check.violation(dict(events=row['events'][:40], clause=rej['clause']),
                        'a scope tree recorded while running the repository tests breaks the %s discipline' % rej['clause'],
                        matcher=match_finding)
    check.extra['repo_test_scope_trees'] = len(rows)
    check.extra['repo_test_events'] = sum(len(r['events']) for r in rows)


def run_mutants(check):
    """the specification's own mutants: the law must be violated by the historic mechanism"""
    res = vlib.run_tlc('MC_C08', cfg='MC_C08_modeleak', constants=dict(MaxDepth=2, SecondDepth=1, Replay='TRUE'))
    if res['violated'] not in ('ModeLaw', 'ProbeLaw', 'FrameModes'):
        raise vlib.MachineryError('mutant modeleak not rejected by TLC: %s' % res['violated'])
    check.extra['spec_mutants_rejected'] = ['modeleak -> %s' % res['violated']]


def main(tier, seed):
    check = vlib.Check(PROP, tier, seed)
    runs = {'quick': [dict(MaxDepth=2, SecondDepth=1, Replay='TRUE'), dict(MaxDepth=3, SecondDepth=0, Replay='FALSE')],
            'thorough': [dict(MaxDepth=2, SecondDepth=1, Replay='TRUE'), dict(MaxDepth=3, SecondDepth=1, Replay='FALSE')]}[tier]
    ndrift = 0
    for consts in runs:
        res, results = vlib.map_states('MC_C08', worker, constants=consts)
        check.add_tlc(res, 'MC_C08 %s' % consts)
        for r in results:
            check.cov['evaluations'] += r['n']
            check.cov['distinct_nontrivial'] += r['nontrivial']
            check.validated(r['n'] - len(r['bad']))
            ndrift += len(r['drift'])
            for d in r['drift'][:1]:
                check.extra.setdefault('drift_examples', []).append(d)
            for s in r['samples']:
                check.sample(s)
            for b in r['bad']:
                check.violation(b['case'], b['why'], matcher=match_finding)
    check.extra['drift_replayed'] = ndrift
    run_mutants(check)
    check.extra['recorded_rows'] = record(check, {'quick': 3000, 'thorough': 30000}[tier], seed)
    repo_test_traces(check)
    import c08_shape
    c08_shape.run(check, tier, seed)
    check.assumptions += ['raw tuples / dicts under Group are accumulators and are generated only outside Group; a STOP leaf is generated only directly under Group',
                          'raw tuples / dicts directly under Match are patterns and are generated only where meaningful',
                          'DRIFT (hook event sequence differs from the mechanism model while the law holds) is reported, not alarmed']
    return check.finish(rule='TLC enumerates wrapper/composite trees by constructor choice (depth 2 with action replay, depth 3 '
                        'without); each is replayed with real specs and probes; non-trivial = at least two probes', exhaustive=True)
