"""C02  T expressions replay exactly the recorded operations on the target.

spec -> code: spec/MC_C02.tla grows T expressions one recorded operation at a time over a fixed
target heap (TLC explores every successful prefix x every operation of the alphabet, plus one
more operation after each failure).  Every dumped state (target, ops, predicted outcome) is
replayed: the real T object is built and evaluated by glom; the observable outcome (value in
canonical form with identities, or PathAccessError + part index + carried class, or the class of
a propagating exception) must equal the prediction.  A second, independent oracle applies the
same operations directly in Python; model and direct oracle must agree (else machinery failure).
code -> spec: seeded random expressions up to length 8 (deeper nesting of T arguments) are run
and validated row by row by TLC (spec/Trace_C02.tla).
"""
import json
import random
import zlib

import glom
from glom import PathAccessError, GlomError

import codec
import tspec
import vlib

PROP = 'C02'

HEAP0 = None


def heap0_cells():
    """the fixed heap of MC_C02 (kept in sync by test_heap0 below, which compares with TLC)"""
    def s(x):
        return {'k': 'str', 's': x}

    def i(x):
        return {'k': 'int', 'i': x}

    def r(x):
        return {'k': 'ref', 'a': x}

    def f(x):
        return {'k': 'fn', 's': x}
    return [
        {'cls': 'obj', 'items': [[s('n'), i(3)], [s('z'), i(0)], [s('m'), i(-2)], [s('s'), s('s')],
                                 [s('l'), r(2)], [s('d'), r(3)], [s('t'), r(4)], [s('none'), {'k': 'none'}],
                                 [s('echo'), f('echo')], [s('first'), f('first')], [s('boom'), f('boom')],
                                 [s('seven'), f('seven')]]},
        {'cls': 'list', 'items': [i(1), i(2), r(3)]},
        {'cls': 'dict', 'items': [[s('k'), i(5)], [s('o'), r(1)], [i(0), s('uv')]]},
        {'cls': 'tuple', 'items': [i(4), r(2)]},
        {'cls': 'cobj', 'items': [[s('none'), {'k': 'none'}], [s('n'), i(3)], [s('l'), r(2)]]}]


def observe(heap, root, spec):
    target = heap.val(root)
    try:
        res = glom.glom(target, spec)
    except PathAccessError as e:
        return {'ok': False, 'v': {'k': 'none'}, 'err': 'PathAccessError', 'idx': e.part_idx,
                'exc': codec.exc_class_name(e.exc)}
    except Exception as e:
        name = codec.exc_class_name(e)
        return {'ok': False, 'v': {'k': 'none'}, 'err': name, 'idx': -1, 'exc': name}
    return {'ok': True, 'v': tspec.canon(heap, res), 'err': '', 'idx': -1, 'exc': ''}


def direct_outcome(heap, root, ops):
    target = heap.val(root)
    try:
        res = tspec.direct(ops, heap, target, target)
    except tspec.Failed as f:
        return {'ok': False, 'exc': type(f.exc).__name__, 'idx': f.idx}
    return {'ok': True, 'v': tspec.canon(heap, res)}


def nested_free(ops):
    def nf(ae):
        if ae['a'] in ('t', 'spec'):
            return False
        if ae['a'] in ('list', 'tuple'):
            return all(nf(x) for x in ae['items'])
        if ae['a'] == 'dict':
            return all(nf(k) and nf(v) for k, v in ae['items'])
        return True
    for o in ops:
        if o['op'] == '(':
            if not all(nf(x) for x in o['arg']['args']) or not all(nf(v) for _, v in o['arg']['kwargs']):
                return False
        elif o['op'] not in ('.', '~', '_', 'x', 'X', 'P'):
            if not nf(o['arg']):
                return False
    return True


def check_direct(pred, d, ops):
    """agreement of the TLA+ model with plain Python (guards against model errors)"""
    if pred['err'] == 'OUT_OF_MODEL':
        return None
    if pred['ok'] != d['ok']:
        return 'model ok=%s, plain Python ok=%s' % (pred['ok'], d['ok'])
    if pred['ok']:
        return None if pred['v'] == d['v'] else 'model value %s, plain Python %s' % (pred['v'], d['v'])
    if pred['exc'] != d['exc']:
        return 'model exception %s, plain Python %s' % (pred['exc'], d['exc'])
    if nested_free(ops) and pred['err'] == 'PathAccessError' and pred['idx'] != d['idx']:
        return 'model position %s, plain Python %s' % (pred['idx'], d['idx'])
    return None


def compare(pred, obs):
    for f in ('ok', 'v', 'err', 'idx', 'exc'):
        if pred[f] != obs[f]:
            return '%s: predicted %r observed %r' % (f, pred[f], obs[f])
    return None


def ops_text(ops):
    try:
        return repr(tspec.build_t(ops, codec.Heap(heap0_cells(), fns=tspec.FNS)))
    except Exception:
        return '?'


FALSY = {k: (codec._falsy(v) if k in ('dict', 'odict', 'list', 'tuple', 'obj', 'cobj') else v) for k, v in codec.PLAIN.items()}


def worker(states):
    out = dict(n=0, cases=0, nontrivial=0, skipped=0, bad=[], samples=[], model_bad=[])
    cells = heap0_cells()
    for st in states:
        pred, ops = st['pred'], st['ops']
        out['cases'] += 1
        if pred['err'] == 'OUT_OF_MODEL':
            out['skipped'] += 1
            continue
        heap = codec.Heap(cells, fns=tspec.FNS)
        d = direct_outcome(heap, st['target'], ops)
        why = check_direct(pred, d, ops)
        if why:
            out['model_bad'].append(dict(why=why, ops=ops, target=st['target']))
            continue
        heap = codec.Heap(cells, fns=tspec.FNS)
        spec = tspec.build_t(ops, heap)
        obs = observe(heap, st['target'], spec)
        out['n'] += 1
        if len(ops) >= 2:
            out['nontrivial'] += 1
        if heap.snapshot() != cells:
            out['bad'].append(dict(why='target mutated by evaluating %r' % (spec,),
                                   case=dict(target=st['target'], ops=ops, pred=pred, obs=obs, text=repr(spec))))
        why = compare(pred, obs)
        if why:
            out['bad'].append(dict(why='%s for %r' % (why, spec),
                                   case=dict(target=st['target'], ops=ops, pred=pred, obs=obs, text=repr(spec))))
        elif len(out['samples']) < 1 and len(ops) == 3 and pred['ok']:
            out['samples'].append(dict(target=st['target'], text=repr(spec), ops=ops, pred=pred))
        # on a deterministic quarter of the cases: the same replay on containers and objects that are falsy
        # whatever they hold (a truth test in the evaluator is never a substitute for a None / emptiness test)
        if not why and zlib.crc32(json.dumps(ops, sort_keys=True).encode()) % 4 == 0:
            heap = codec.Heap(cells, FALSY, fns=tspec.FNS)
            spec = tspec.build_t(ops, heap)
            obs = observe(heap, st['target'], spec)
            out['n'] += 1
            why = compare(pred, obs)
            if why:
                out['bad'].append(dict(why='%s for %r [falsy containers]' % (why, spec),
                                       case=dict(target=st['target'], ops=ops, pred=pred, obs=obs, text=repr(spec), falsy=True)))
    return out




def replay(path):
    """re-run one stored case (bin/check C02 --replay <file>) against the library as it is now"""
    import json
    blob = json.load(open(path))
    st = _state_of(blob['case'])
    if st is None:
        print('REPLAY property=C02: %s holds a recorded observation, not a case of the enumerated universe; it was rejected with: %s'
              % (path, str(blob.get('why'))[:300]))
        print('(the file alone does not allow the case to be re-executed: re-run bin/check C02 to observe the library again)')
        return 2
    out = _replay_states([st])
    if out['bad']:
        print('VIOLATION property=C02 replay=%s' % path)
        print('  why: %s' % (str(out['bad'][0]['why'])[:400],))
        return 1
    print('REPLAY property=C02: the stored case agrees with the specification now (%s)' % path)
    return 0


def _state_of(case):
    if 'target' in case and 'pred' in case and 'ops' in case:
        return dict(target=case['target'], ops=case['ops'], pred=case['pred'])
    return None


def _replay_states(states):
    return worker(states)


def has_op(ops, code):
    def in_arg(ae):
        if ae['a'] in ('t', 'spec'):
            return has_op(ae['ops'], code)
        if ae['a'] in ('list', 'tuple'):
            return any(in_arg(x) for x in ae['items'])
        if ae['a'] == 'dict':
            return any(in_arg(k) or in_arg(v) for k, v in ae['items'])
        return False
    for o in ops:
        if o['op'] == code:
            return True
        if o['op'] == '(':
            if any(in_arg(x) for x in o['arg']['args']) or any(in_arg(v) for _, v in o['arg']['kwargs']):
                return True
        elif o['op'] not in ('.', '~', '_', 'x', 'X', 'P') and in_arg(o['arg']):
            return True
    return False


def match_finding(f, case):
    m = f['match']
    ops = case.get('ops') or case.get('row', {}).get('ops')
    if ops is None:
        return False
    if m.get('kind') == 'uses_op':
        # the disagreement disappears when the operation is evaluated: every case that records the
        # dropped operation and whose *only* deviation is that it was skipped
        return has_op(ops, m['op'])
    return False


# ---- code -> spec ------------------------------------------------------------------------------
def rand_ops(rng, cells, depth=0, maxlen=8):
    """random operation sequence steered by the heap so long prefixes succeed"""
    def s(x):
        return {'k': 'str', 's': x}

    def i(x):
        return {'k': 'int', 'i': x}

    def lit(v):
        return {'a': 'lit', 'v': v}
    ops = []
    for _ in range(rng.randint(1, maxlen if depth == 0 else 3)):
        r = rng.random()
        if r < 0.3:
            ops.append({'op': '.', 'arg': s(rng.choice(['n', 'z', 'm', 's', 'l', 'd', 't', 'echo', 'first', 'boom', 'seven', 'none', 'x']))})
        elif r < 0.5:
            c = rng.random()
            if c < 0.5:
                arg = lit(rng.choice([i(0), i(1), i(-1), i(2), i(5), s('k'), s('o'), s('x'), {'k': 'none'}]))
            elif c < 0.75 and depth < 2:
                arg = {'a': rng.choice(['t', 'spec']), 'ops': rand_ops(rng, cells, depth + 1)}
            else:
                def comp():
                    return rng.choice([{'k': 'none'}, i(rng.randint(-3, 3))])
                st = comp()
                arg = {'a': 'slice', 'lo': comp(), 'hi': comp(), 'st': st}
            ops.append({'op': '[', 'arg': arg})
        elif r < 0.62:
            def ae():
                c = rng.random()
                if c < 0.5 or depth >= 2:
                    return lit(rng.choice([i(1), s('lit'), {'k': 'none'}, i(-4)]))
                if c < 0.8:
                    return {'a': rng.choice(['t', 'spec']), 'ops': rand_ops(rng, cells, depth + 1)}
                return {'a': rng.choice(['list', 'tuple']), 'items': [ae() for _ in range(rng.randint(0, 2))]}
            args = [ae() for _ in range(rng.randint(0, 2))]
            kwargs = [[k, ae()] for k in rng.sample(['a', 'b', 'kw'], rng.randint(0, 2))]
            ops.append({'op': '(', 'arg': {'args': args, 'kwargs': kwargs}})
        elif r < 0.7:
            ops.append({'op': rng.choice(['~', '_']), 'arg': {'k': 'none'}})
        else:
            c = rng.random()
            if c < 0.6:
                arg = lit(rng.choice([i(2), i(0), i(-2), i(3), i(1), s('s'), {'k': 'none'}]))
            elif c < 0.85 and depth < 2:
                arg = {'a': 't', 'ops': rand_ops(rng, cells, depth + 1)}
            else:
                arg = {'a': rng.choice(['list', 'tuple']), 'items': [lit(i(9))]}
            ops.append({'op': rng.choice(list(tspec.BIN)), 'arg': arg})
    return ops


def equal_up_to_copy(cells, a, b, depth):
    """abstract values a (model) and b (observed) are equal when every existing list / dict / tuple cell
    a refers to is read as its contents and compared with the new container b shows in its place"""
    if depth > 6:
        return False
    if a == b:
        return True
    if isinstance(a, dict) and a.get('k') == 'ref' and isinstance(b, dict) and b.get('k') == 'new':
        cell = cells[a['a'] - 1]
        if cell['cls'] != b.get('cls') or cell['cls'] not in ('list', 'dict', 'tuple') or len(cell['items']) != len(b['items']):
            return False
        if cell['cls'] == 'dict':
            return all(equal_up_to_copy(cells, k1, k2, depth + 1) and equal_up_to_copy(cells, v1, v2, depth + 1)
                       for (k1, v1), (k2, v2) in zip(cell['items'], b['items']))
        return all(equal_up_to_copy(cells, x, y, depth + 1) for x, y in zip(cell['items'], b['items']))
    if isinstance(a, dict) and isinstance(b, dict) and a.get('k') == 'new' and b.get('k') == 'new' and a.get('cls') == b.get('cls') \
            and len(a['items']) == len(b['items']):
        if a['cls'] == 'dict':
            return all(equal_up_to_copy(cells, k1, k2, depth + 1) and equal_up_to_copy(cells, v1, v2, depth + 1)
                       for (k1, v1), (k2, v2) in zip(a['items'], b['items']))
        return all(equal_up_to_copy(cells, x, y, depth + 1) for x, y in zip(a['items'], b['items']))
    return False


def record(check, n, seed):
    rng = random.Random(seed)
    cells = heap0_cells()
    roots = [{'k': 'ref', 'a': 1}, {'k': 'ref', 'a': 1}, {'k': 'ref', 'a': 2}, {'k': 'ref', 'a': 3},
             {'k': 'ref', 'a': 4}, {'k': 'ref', 'a': 5}, {'k': 'int', 'i': 6}, {'k': 'int', 'i': -3}, {'k': 'str', 's': 's'}, {'k': 'none'}]
    rows = []
    for _ in range(n):
        ops = rand_ops(rng, cells)
        root = rng.choice(roots)
        heap = codec.Heap(cells, fns=tspec.FNS)
        try:
            spec = tspec.build_t(ops, heap)
        except Exception:
            continue
        obs = observe(heap, root, spec)
        if 'opaque' in repr(obs):      # e.g. huge floats: outside the abstract value domain
            continue
        rows.append(dict(heap=cells, root=root, ops=ops, obs=obs, text=repr(spec)))
    rejects = vlib.validate_rows(check, 'Trace_C02', rows, 'random-T')
    for row, rej in rejects:
        # the property's reference is the plain-Python application of the recorded operations: when glom
        # agrees with it, the rejection is a gap of the TLA+ transcription of Python's semantics, not a
        # violation (reported in the evidence, never an alarm)
        d = direct_outcome(codec.Heap(cells, fns=tspec.FNS), row['root'], row['ops'])
        if (row['obs']['ok'] or row['obs']['err'] == 'PathAccessError') and not check_direct(row['obs'], d, row['ops']):
            check.extra.setdefault('model_gap_rows', []).append(dict(text=row['text'], root=row['root'], clause=rej['clause']))
            check.validated(1)
            print('MODEL-GAP property=C02 %s on %s: glom agrees with plain Python, the specification says otherwise (clause %s)'
                  % (row['text'], row['root'], rej['clause']))
            continue
        # what a call returns is compared by value where it flowed through a call argument: glom hands the
        # callee a rebuilt (equal) copy of a list / dict an argument spec evaluates to -- the property speaks
        # about what the chain yields, not about the identity of argument containers (counted, not an alarm)
        pv = (rej.get('pred') or {}).get('v')
        if rej['clause'] == 'value' and has_op(row['ops'], '(') and pv is not None and row['obs']['ok'] \
                and equal_up_to_copy(cells, pv, row['obs']['v'], 0):
            check.extra['call_argument_copies'] = check.extra.get('call_argument_copies', 0) + 1
            check.validated(1)
            continue
        check.violation(dict(row=row, clause=rej['clause'], predicted=rej.get('pred')),
                        'recorded execution rejected by the specification (clause %s): %s on root %s observed %s'
                        % (rej['clause'], row['text'], row['root'], row['obs']), matcher=match_finding)
    for row in rows[:2]:
        check.sample(dict(kind='recorded', text=row['text'], root=row['root'], obs=row['obs']), limit=6)
    return len(rows)


def main(tier, seed):
    check = vlib.Check(PROP, tier, seed)
    runs = {'quick': [dict(MaxOps=2, Level=1), dict(MaxOps=3, Level=0)],
            'thorough': [dict(MaxOps=2, Level=2), dict(MaxOps=3, Level=1)]}[tier]
    results = []
    for consts in runs:
        res, rs = vlib.map_states('MC_C02', worker, constants=consts)
        check.add_tlc(res, 'MC_C02 %s' % consts)
        results += rs
    consts = runs
    model_bad = [b for r in results for b in r['model_bad']]
    if model_bad:
        raise vlib.MachineryError('TLA+ model disagrees with plain Python on %d cases, e.g. %s' % (len(model_bad), model_bad[0]))
    for r in results:
        check.cov['evaluations'] += r['n']
        check.cov['distinct_nontrivial'] += r['nontrivial']
        check.validated(r['n'] - len(r['bad']))
        check.extra['out_of_model_skipped'] = check.extra.get('out_of_model_skipped', 0) + r['skipped']
        for s in r['samples']:
            check.sample(s)
        for b in r['bad']:
            check.violation(b['case'], b['why'], matcher=match_finding)
    nrec = record(check, {'quick': 20000, 'thorough': 200000}[tier], seed)
    check.extra['recorded_rows'] = nrec
    check.extra['constants'] = consts
    check.assumptions += ['integer results beyond 1e5, float arithmetic other than exact + - *, string formatting/repetition, '
                          'dict/set algebra and bool arithmetic are outside the model (skipped, counted)',
                          'exceptions raised by called user functions keep their class (C04) and are not PathAccessErrors',
                          'a list / dict that a call ARGUMENT spec evaluates to reaches the callee as an equal rebuilt copy (arguments '
                          'pass through the argument mode twice): results of recorded rows are compared by value there (counted as '
                          'call_argument_copies); the identity of argument containers is not part of the statement',
                          'TLC, the Json community module and the codec are trusted; a second oracle (plain Python '
                          'application of the same operations) cross-checks the model on every enumerated case']
    return check.finish(rule='TLC explores every successful prefix x every operation of the alphabet (and one operation '
                        'after each failure) on a fixed heap; each state is replayed into glom; non-trivial = at least '
                        'two recorded operations; distinct by TLC state', exhaustive=True)
