"""C10  M, And, Or, Not, Switch and Check decide like the boolean expressions denoted.

spec -> code: every (mode, combinator tree, target) case TLC enumerates from spec/MC_C10.tla
(trees built with constructors and with & | ~, with and without defaults; Check over all
keyword subsets), with the outcome GlomMatch!Ev predicts -- result, permitted exception
classes, call log of the named predicates, identity of a passed-through target -- is
replayed into the real library.
code -> spec: seeded random trees to depth 5 over a wider atom alphabet and random targets
are run through the real library; the recorded rows are validated by TLC (Trace_C10.tla).
"""
import copy
import json
import random

import glom
from glom import Match

import vlib
import c09_build as B
import c09_gen as G9
import c10_gen as G

PROP = 'C10'


def run_seq(mode, spec, trees):
    """ONE spec object evaluated on the targets in sequence; one observation per target."""
    ctx = B.Ctx()
    s, failed = B.build(spec, ctx, wrap=Match if mode == 'match' else None)
    obs = []
    for tree in trees:
        target = B.tree_py(tree)
        before = B.snapshot(target)
        del ctx.calls[:]
        ob = dict(failed) if failed else B.observe(lambda: glom.glom(target, s))
        ob['calls'] = list(ctx.calls)
        ob['same'] = bool(ob['ok'] and ob['res'] is target)
        if ob['ok'] and len(trees) > 1:
            # a caller mutates the containers of the result before the spec object is used again
            try:
                kept = copy.deepcopy(ob['res'])
            except Exception:
                kept = None
            if kept is not None and not ob['same']:
                B.poison(ob['res'], target)
                ob['res'] = kept
        ob['unchanged'] = B.snapshot(target) == before
        obs.append(ob)
    return obs


def run_case(mode, spec, tree):
    return run_seq(mode, spec, [tree])[0]


def judge(o, ob):
    """Disagreement between the predicted outcome o and the observation ob (None = agree)."""
    if o['amb']:
        return None
    if o['ok'] != ob['ok']:
        return 'predicted %s, observed %s' % ('success %r' % (B.tree_py(o['v']),) if o['ok'] else 'failure %s' % sorted(o['errs']),
                                              'success %r' % (ob['res'],) if ob['ok'] else ob['cls'])
    if o['ok']:
        exp = B.tree_py(o['v'])
        if not (ob['res'] == exp and B.py_tree(ob['res']) == B.py_tree(exp)):
            return 'result %r, predicted %r' % (ob['res'], exp)
        if o['same'] and not ob['same']:
            return 'the result is not the target object itself'
    elif not B.class_ok(o['errs'], ob):
        return 'raised %s at %s (MatchError=%s GlomError=%s), permitted %s' % (
            ob['cls'], ob['site'], ob['is_match'], ob['is_glom'], sorted(o['errs']))
    if o['calls'] != ob['calls']:
        return 'call log %s, predicted %s' % (ob['calls'], o['calls'])
    if not ob['unchanged']:
        return 'target modified'
    return None


def nodes(p):
    yield p
    if p['op'] in ('and', 'or', 'not'):
        for c in p['c']:
            yield from nodes(c)
    elif p['op'] == 'switch':
        for k, v in p['cases']:
            yield from nodes(k)
            yield from nodes(v)
    elif p['op'] == 'match':
        yield from nodes(p['sub'])


def nontrivial(spec):
    return sum(1 for n in nodes(spec) if n['op'] in ('and', 'or', 'not', 'switch')) >= 1 or spec['op'] == 'check'


def worker(states):
    try:
        return _worker(states)
    except Exception:
        import traceback
        return dict(error=traceback.format_exc())


def _worker(states):
    out = dict(n=0, cases=0, nontrivial=0, ok=0, fail=0, foreign=0, opform=0, checks=0, bad=[], samples=[], by_op={})
    for st in states:
        if st.get('phase') == 3:              # one spec object, evaluated on target and then on target2
            obs = run_seq(st['mode'], st['spec'], [st['target'], st['target2']])
            out['n'] += 2
            out['reused'] = out.get('reused', 0) + 1
            for k, (o, ob, t) in enumerate(((st['pred'], obs[0], st['target']), (st['pred2'], obs[1], st['target2']))):
                why = judge(o, ob)
                if why:
                    out['bad'].append(dict(why='%s evaluation of one spec object: %s' % (('first', 'second')[k], why),
                                           case=dict(kind='spec->code', mode=st['mode'], spec=st['spec'], target=t, pred=o,
                                                     history=[st['target']][:k], obs=B.json_safe(ob))))
            continue
        if st.get('phase') != 2:
            continue
        if st['mode'] == 'ctor':              # construction of a spec: 'ok' or the documented exception class
            spec = st['spec']
            got = B.construct((lambda: B.mkspec(spec, B.Ctx())) if spec['op'] == 'wrap' else B.CTOR_CALLS[spec['name']])
            out['n'] += 1
            out['ctor'] = out.get('ctor', 0) + 1
            if got != st['pred']['ctor']:
                out['bad'].append(dict(why='constructing it gave %s, documented: %s' % (got, st['pred']['ctor']),
                                       case=dict(kind='ctor', spec=spec, pred=st['pred'], obs=got)))
            continue
        out['cases'] += 1
        o = st['pred']
        out['amb'] = out.get('amb', 0) + bool(o['amb'])
        spec = st['spec']
        out['nontrivial'] += nontrivial(spec)
        cnt = out['by_op'].setdefault(st['mode'] + ':' + spec['op'], [0, 0, 0])
        cnt[0 if o['ok'] else 2 if set(o['errs']) & {'TypeError', 'ValueError'} else 1] += 1
        out['ok'] += o['ok']
        out['fail'] += not o['ok']
        out['foreign'] += bool(set(o['errs']) & {'TypeError', 'ValueError'})
        out['checks'] += spec['op'] == 'check'
        out['opform'] += any(n.get('form') == 'op' for n in nodes(spec))
        ob = run_case(st['mode'], spec, st['target'])
        out['n'] += 1
        if len(out['samples']) < 1 and o['ok'] and o['calls'] and spec['op'] in ('or', 'switch'):
            out['samples'].append(dict(mode=st['mode'], spec=spec, target=st['target'], pred=o))
        why = judge(o, ob)
        if why:
            out['bad'].append(dict(why=why, case=dict(kind='spec->code', mode=st['mode'], spec=spec, target=st['target'],
                                                      pred=o, obs=B.json_safe(ob))))
    return out


# ---- code -> spec ---------------------------------------------------------------------------
def record_rows(mode, spec, trees):
    """rows of ONE spec object evaluated on the targets in sequence (each row is judged on its
    own: specs carry no memory)"""
    rows = []
    for k, (tree, ob) in enumerate(zip(trees, run_seq(mode, spec, trees))):
        cells, root = B.tree_cells(tree)
        obs = dict(ok=ob['ok'], v=B.py_tree(ob['res']) if ob['ok'] else {'k': 'none'}, cls=ob.get('cls', ''),
                   site=ob.get('site', ''), calls=ob['calls'], same=ob['same'], unchanged=ob['unchanged'])
        rows.append(dict(mode=mode, spec=spec, heap=cells, root=root, obs=obs, nth_use=k + 1))
    return rows


def record_row(mode, spec, tree):
    return record_rows(mode, spec, [tree])[0]


def record(check, n, seed):
    rng = random.Random(seed)
    inputs = []
    while sum(len(i[2]) for i in inputs) < n:
        mode = rng.choice(['auto', 'match'])
        k = rng.randint(2, 4) if rng.random() < 0.3 else 1       # the same spec object on several targets in a row
        inputs.append((mode, B.normalize(G.gen_tree(rng, mode, rng.randint(1, 5), [0])), [G.rand_target(rng) for _ in range(k)]))
    rows = [r for rs in B.pmap(record_rows, inputs) for r in rs
            if not (r['obs']['ok'] and 'opaque' in json.dumps(r['obs']['v']))]
    rejects, skipped = B.validate_rows(check, 'Trace_C10', rows, 'random-trees')
    check.extra['recorded_rows_not_judged_order_dependent'] = skipped
    for row, rej in rejects:
        row['_rejected'] = True
        check.violation(dict(kind='code->spec', row=row, clause=rej['clause']),
                        'recorded execution rejected by the specification: clause %s' % rej['clause'],
                        matcher=match_finding)
    nok = sum(1 for r in rows if r['obs']['ok'])
    check.extra['recorded'] = dict(rows=len(rows), observed_success=nok,
                                   with_calls=sum(1 for r in rows if r['obs']['calls']))
    for row in rows[:2]:
        check.sample(dict(kind='recorded', **row), limit=6)
    if nok < len(rows) // 10 or nok > len(rows) * 9 // 10:
        check.extra.setdefault('problems', []).append('recorded rows are one-sided: %d of %d succeed' % (nok, len(rows)))
    return rows


def corrupt_selftest(check, rows):
    """rows (accepted as recorded) with one corrupted observation must be rejected by Trace_C10"""
    picks, want = [], []
    for row in rows:
        if row.get('_rejected'):
            continue
        if row['obs']['ok'] and len(row['obs']['calls']) >= 2 and 'calllog' not in want:
            bad = json.loads(json.dumps(row))
            bad['obs']['calls'] = bad['obs']['calls'][:-1]          # one call dropped
            picks.append(bad)
            want.append('calllog')
        if not row['obs']['ok'] and row['obs']['cls'] == 'MatchError' and 'errclass' not in want:
            bad = json.loads(json.dumps(row))
            bad['obs']['cls'] = 'GlomError'                         # wrong class
            picks.append(bad)
            want.append('errclass')
        if len(picks) == 2:
            break
    tmp = vlib.Check(PROP, 'selftest', 0)
    got = [j['clause'] for _, j in vlib.validate_rows(tmp, 'Trace_C10', picks, 'corrupt')] if picks else []
    check.extra['corrupted_rows_rejected'] = got
    if sorted(got) != ['calllog', 'errclass'] and not check.violations:
        raise vlib.MachineryError('corrupted recorded rows not rejected as expected: wanted %r, got %r' % (want, got))


# ---- known findings ---------------------------------------------------------------------------
def match_finding(f, case):
    """No known finding is open for C10: the three defects the check found (Not raising a bare
    GlomError, Check(validate=<raises>, default=d) ignoring d, And/Or operator forms dropping the
    default) are repaired in the repository and live on as spec mutants (see MUTANTS); a
    regression is a VIOLATION."""
    return False


# (mutant of the mechanism, laws one of which TLC must report violated, constants)
MUTANTS = [('or_last', ('Result', 'ShortCircuit'), dict(Depth=1, Wide='FALSE')),
           ('and_continue', ('Decides', 'Rejects', 'ShortCircuit'), dict(Depth=1, Wide='FALSE')),
           ('switch_fallthrough', ('Decides', 'Result', 'ShortCircuit'), dict(Depth=1, Wide='FALSE')),
           # the three behaviours of glom before its repair
           ('not_glomerror', ('Rejects',), dict(Depth=1, Wide='FALSE')),
           ('check_default_ignored', ('Decides', 'Defaults'), dict(Depth=1, Wide='FALSE')),
           ('opform_drops_default', ('Decides', 'Result', 'Rejects', 'Defaults'), dict(Depth=2, Wide='FALSE')),
           # one plausible wrong mechanism per further construct
           ('switch_last_match', ('Result', 'ShortCircuit', 'Decides'), dict(Depth=1, Wide='FALSE')),       # Switch (list / dict form)
           ('m_reflected_unswapped', ('Decides',), dict(Depth=1, Wide='FALSE')),                            # constant op M
           ('msub_returns_sub', ('Result', 'Passthrough'), dict(Depth=1, Wide='FALSE')),                    # M(T[..]) op c
           ('check_returns_subtarget', ('Result', 'Passthrough'), dict(Depth=1, Wide='FALSE')),             # Check(spec, ..)
           ('unorderable_is_rejection', ('Unorderable',), dict(Depth=1, Wide='FALSE')),                     # unorderable operands
           ('required_constant_allowed', ('CtorLaw',), dict(Depth=1, Wide='FALSE')),
           ('or_remembers_branch', ('HistoryFree',), dict(Depth=1, Wide='FALSE')),                          # specs carry no memory
           ('default_aliased', ('HistoryFree',), dict(Depth=1, Wide='FALSE')),            # defaults are built afresh
           ('default_not_evaluated', ('Result', 'Decides'), dict(Depth=1, Wide='FALSE')),  # defaults are argument values (T resolved)
           ('check_validator_default_raw', ('Result', 'HistoryFree'), dict(Depth=1, Wide='FALSE')),   # Check's default on the validator path (historic)
           # hardening: falsy values are values (defaults, sub-results), bool() decides truthiness
           ('truthy_by_len', ('Decides',), dict(Depth=1, Wide='FALSE')),
           ('falsy_default_missing', ('Decides', 'Defaults'), dict(Depth=1, Wide='FALSE')),
           ('or_skips_falsy_result', ('Decides', 'Result', 'ShortCircuit'), dict(Depth=1, Wide='FALSE')),
           ('check_validator_some_exceptions', ('CheckContains',), dict(Depth=1, Wide='FALSE'))]   # whatever a validator raises is a failed condition                        # Optional / Required construction


def main(tier, seed):
    check = vlib.Check(PROP, tier, seed)
    B.check_tables()
    problems = check.extra.setdefault('problems', [])      # machinery complaints; fatal unless a violation is reported
    consts = {'quick': dict(Depth=2, Wide='FALSE'), 'thorough': dict(Depth=3, Wide='TRUE')}[tier]
    consts['Mutant'] = '"none"'
    res, results = vlib.map_states('MC_C10', worker, constants=consts)
    check.add_tlc(res, 'MC_C10 %s' % consts)
    tot = dict(cases=0, ok=0, fail=0, foreign=0, opform=0, checks=0)
    nctor = nreused = namb = 0
    by_op = {}
    for r in results:
        if 'error' in r:
            raise vlib.MachineryError('replay worker failed:\n' + r['error'])
        check.cov['evaluations'] += r['n']
        check.cov['distinct_nontrivial'] += r['nontrivial']
        check.validated(r['cases'] + r.get('ctor', 0) + r.get('reused', 0) - len(r['bad']))
        nctor += r.get('ctor', 0)
        namb += r.get('amb', 0)
        nreused += r.get('reused', 0)
        for k in tot:
            tot[k] += r[k]
        for op, cs in r['by_op'].items():
            c = by_op.setdefault(op, [0, 0, 0])
            for i in range(3):
                c[i] += cs[i]
        for s in r['samples']:
            check.sample(s)
        for b in r['bad']:
            check.violation(b['case'], b['why'], matcher=match_finding)
    check.extra['cases'] = dict(total=tot['cases'], predicted_success=tot['ok'], predicted_failure=tot['fail'],
                                foreign_error=tot['foreign'], with_operator_forms=tot['opform'], check_cases=tot['checks'])
    check.extra['cases']['constructor_cases'] = nctor
    check.extra['cases']['not_compared_order_dependent'] = namb
    check.extra['cases']['spec_object_reused_cases'] = nreused
    if nreused == 0:
        problems.append('no reuse cases')
    if nctor == 0:
        problems.append('no constructor cases')
    check.extra['cases']['by_mode_and_root'] = {op: dict(success=c[0], glom_error=c[1], foreign_error=c[2])
                                               for op, c in sorted(by_op.items())}
    # vacuity: every combinator, in both modes, passes and rejects
    if min(tot.values()) == 0 or any(min(by_op.get(m + ':' + op, [0, 0])[:2]) == 0
                                     for m in ('auto', 'match') for op in ('and', 'or', 'not', 'switch', 'm')) \
            or min(by_op.get('auto:check', [0, 0])[:2]) == 0:
        problems.append('vacuous universe: %r %r' % (tot, by_op))
    rows = record(check, {'quick': 8000, 'thorough': 40000}[tier], seed)
    corrupt_selftest(check, rows)
    if tier == 'thorough':
        for name, laws, mc in MUTANTS:
            r = vlib.run_tlc('MC_C10', constants=dict(mc, Mutant='"%s"' % name))
            if r['violated'] not in laws:
                raise vlib.MachineryError('spec mutant %s: expected a violation of %s, TLC says %r' % (name, laws, r['violated']))
            check.extra.setdefault('spec_mutants', {})[name] = r['violated']
    check.extra['constants'] = consts
    check.assumptions += [
        'type and literal atoms only under Match(..) (in Auto mode a bare type is a callable, a string a path: C03)',
        'a comparison Python itself refuses (TypeError) and a raising callable in Auto mode are not rejections: the '
        'foreign error must propagate through every combinator and default (only GlomErrors are caught)',
        'when every child of an Or fails, a MatchError or any child\'s own error class is permitted (the docstring says '
        'MatchError, the property lets child errors propagate as themselves)',
        'Switch(default=) covers "no case matched" only (documented); the failure of the value spec of the matching case propagates',
        'defaults that are instances of dict / list subclasses (OrderedDict ...) are outside the universe: argument mode '
        'rebuilds exact builtin containers only, by design',
        'one-shot iterators as Check(one_of= / type= / validate=) arguments are outside the contract (the documentation '
        'means a re-iterable collection) and outside the universe',
        'validators of Check are not part of the call-log law (the documentation does not order or short-circuit them)',
        'the Match wrapper is only at the root, so the C08 mode leak through chain_child is not involved',
        'strings from {"", a, b, aa, ab, ba, bb}; TLC, the Json community module and the codec are trusted']
    if problems and not check.violations:
        raise vlib.MachineryError('; '.join(problems))
    return check.finish(rule='TLC enumerates every (mode, combinator tree, target) within the constants: trees of depth <= '
                        'Depth in every construction form and default variant x all targets, plus every Check keyword '
                        'subset x targets; non-trivial = at least one combinator or a Check; distinct by TLC state '
                        'fingerprint', exhaustive=True)


def replay(path):
    with open(path) as f:
        v = json.load(f)
    case = v['case']
    if case.get('kind') == 'code->spec':
        row = case['row']
        new = record_row(row['mode'], row['spec'], G9.untree(row['heap'], row['root']))
        print(json.dumps(dict(recorded_then=row['obs'], observed_now=new['obs']), indent=1))
        tmp = vlib.Check(PROP, 'replay', 0)
        rej = vlib.validate_rows(tmp, 'Trace_C10', [new], 'replay')
        print('rejected by the specification: %s' % [j for _, j in rej])
        return 1 if rej else 0
    if case.get('kind') == 'ctor':
        spec = case['spec']
        got = B.construct((lambda: B.mkspec(spec, B.Ctx())) if spec['op'] == 'wrap' else B.CTOR_CALLS[spec['name']])
        print(json.dumps(dict(spec=spec, documented=case['pred']['ctor'], observed=got)))
        return 0 if got == case['pred']['ctor'] else 1
    ob = run_case(case['mode'], case['spec'], case['target'])
    why = judge(case['pred'], ob)
    print(json.dumps(dict(mode=case['mode'], spec=case['spec'], target=case['target'], predicted=case['pred'],
                          observed=B.json_safe(ob)), indent=1, default=str))
    if why:
        print('DISAGREES:', why)
    return 1 if why else 0
