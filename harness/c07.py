"""C07  Scope bindings are lexically scoped, chain forward, never outlive the call.

spec -> code: spec/MC_C07.tla enumerates every placement of binders (S(x=..), A.x, Spec(scope={x}),
A.globals.g) and readers (S.x, S.globals.g) over trees mixing tuple, Pipe, dict, Coalesce, Or, And,
Switch, match-dict, Fill / Match wrappers and always-failing leaves, with x optionally in the
caller's scope.  TLC checks that the mechanism (GlomFrames: ChainMap parents + chain_child) gives
every reader exactly what the static visibility law says.  Each tree is replayed with real specs:
readers are Coalesce(S.x, default=<inv>) and log what they resolve to; the call is made twice (the
second log must equal the first: nothing outlives a call) and the caller's scope mapping must be
unchanged.
code -> spec: random deeper trees (two names, depth 4-5) are run and their reader logs validated by
TLC (spec/Trace_C07.tla) against the law and the mechanism.
"""
import collections
import json
import random
import zlib

import glom
from glom import S, A, T, Vars, Coalesce, Val

import frames
import vlib

PROP = 'C07'


class CVal:
    def __repr__(self):
        return 'callerval'


CALLER = CVal()


def obs_val(v):
    if v is CALLER or v == ['other', 'callerval']:
        return ['c']
    return v


def same_val(mv, ov):
    if mv == ov:
        return True
    if mv and mv[0] == 't' and len(mv) > 1 and mv[1] < 0 and mv[1] != -3:
        return ov == ['t', -1]
    return False


def run_tree(tree, caller, flavour='vars'):
    scope = {'x': CALLER} if caller else None
    if caller and flavour == 'chainscope':
        # the caller passes a layered mapping: the first layer shadows the later ones
        scope = collections.ChainMap({'x': CALLER}, {'x': 'shadowed-default', 'unused': 1})
        flavour = 'vars'
    before = dict(scope) if scope else None
    o1 = frames.execute(tree, [], caller_scope=scope, flavour=flavour, hook=(flavour == 'vars'))
    log1 = [dict(p=e['p'], v=fix(e['v'])) for e in o1['log']]
    # the very same spec objects evaluated a second time: nothing may have been carried over
    o2 = frames.execute(tree, [], caller_scope=scope, hook=False, prebuilt=o1['prebuilt'])
    log2 = [dict(p=e['p'], v=fix(e['v'])) for e in o2['log']]
    why = None
    if scope is not None and (scope != before or list(scope) != list(before)):
        why = "the caller's scope mapping was modified: %r" % (scope,)
    elif log1 != log2 or o1['out'] != o2['out']:
        why = 'a second call of the same spec behaves differently: %s vs %s' % (log1, log2)
    return o1, log1, why


def fix(v):
    if v == ['other', 'callerval']:
        return ['c']
    if v == ['s', 'K']:
        return ['t', -3, 1]      # the keys an mdict feeds to its key spec
    if v == ['s', 'L']:
        return ['t', -3, 2]
    if v and v[0] == 'other':
        return ['t', -1]      # a container built during the call
    return v


def worker(states):
    out = dict(n=0, nontrivial=0, bad=[], drift=[], samples=[])
    for st in states:
        if st['phase'] != 1:
            continue
        tree, run, caller = st['tree'], st['run'], st['caller']
        out['nontrivial'] += len(run['log']) >= 1
        # a variables object may be a Vars, a dict literal or the empty dict literal: one law for all
        for flavour in (FLAVOURS if has_kind(tree, 'vbind') else ['vars']):
            one_case(out, tree, run, caller, flavour)
        # on a deterministic quarter of the trees with an S.x reader: the same lookups made inside the key spec
        # of Iter().first(key) (a spec evaluated under the scope of the position it stands at)
        if has_kind(tree, 'read') and zlib.crc32(json.dumps(tree, sort_keys=True).encode()) % 4 == 0:
            one_case(out, tree, run, caller, 'firstkey')
        if caller and zlib.crc32(json.dumps(tree, sort_keys=True).encode()) % 2 == 1:
            one_case(out, tree, run, caller, 'chainscope')
    return out




def replay(path):
    """re-run one stored case (bin/check C07 --replay <file>) against the library as it is now"""
    import json
    blob = json.load(open(path))
    st = _state_of(blob['case'])
    if st is None:
        print('REPLAY property=C07: %s holds a recorded observation, not a case of the enumerated universe; it was rejected with: %s'
              % (path, str(blob.get('why'))[:300]))
        print('(the file alone does not allow the case to be re-executed: re-run bin/check C07 to observe the library again)')
        return 2
    out = _replay_states([st])
    if out['bad']:
        print('VIOLATION property=C07 replay=%s' % path)
        print('  why: %s' % (str(out['bad'][0]['why'])[:400],))
        return 1
    print('REPLAY property=C07: the stored case agrees with the specification now (%s)' % path)
    return 0


def _state_of(case):
    if all(k in case for k in ('tree', 'caller', 'run')):
        return dict(tree=case['tree'], caller=case['caller'], run=case['run'], phase=1, _flavour=case.get('flavour', 'vars'))
    return None


def _replay_states(states):
    out = dict(n=0, nontrivial=0, bad=[], drift=[], samples=[])
    for st in states:
        one_case(out, st['tree'], st['run'], st['caller'], st['_flavour'])
    return out


FLAVOURS = ['vars', 'edict']      # thorough adds 'dict' (main)


def has_kind(tree, k):
    return tree['k'] == k or any(has_kind(c, k) for c in tree['c'])


def one_case(out, tree, run, caller, flavour):
    if True:
        run0 = run
        o1, log, why = run_tree(tree, caller, flavour)
        out['n'] += 1
        # the model's own "refuse" entries (which definition a Ref(name) resolved to) are not directly
        # observable: the definition that ran shows through the marks / readers inside it
        run = dict(run, log=[e for e in run['log'] if e['what'] != 'refuse'])
        case = dict(tree=tree, caller=caller, flavour=flavour, run=run0, predicted=[[e['p'], e['v']] for e in run['log']],
                    observed=[[e['p'], e['v']] for e in log], text=repr(o1['spec']))
        if not why:
            if [e['p'] for e in log] != [e['p'] for e in run['log']]:
                why = 'readers ran at %s, expected %s' % ([e['p'] for e in log], [e['p'] for e in run['log']])
            else:
                for e, m in zip(log, run['log']):
                    if not same_val(m['v'], e['v']):
                        why = 'reader at %s resolved to %s, the visibility law says %s' % (e['p'], e['v'], m['v'])
                        break
        if not why and (o1['out'] == 'ok') != (run['out'] == 'ok'):
            why = 'outcome %s, expected %s' % (o1['out'], run['out'])
        if why:
            out['bad'].append(dict(why='%s in %s' % (why, case['text']), case=case))
        elif len(out['samples']) < 1 and len(run['log']) >= 2:
            out['samples'].append(case)


def rand_tree(rng, depth, mode='AUTO'):
    leaves = [('sbind', 'x'), ('sbind', 'y'), ('abind', 'x'), ('abind', 'y'), ('read', 'x'), ('read', 'y'), ('read', 'x'),
              ('fail', ''), ('gbind', 'g'), ('gread', 'g'), ('vbind', 'v'), ('vset', 'v'), ('vread', 'v'), ('vread', 'v'),
              ('mark', '')]
    if depth == 0 or rng.random() < 0.25:
        k, a = rng.choice(leaves)
        return {'k': k, 'a': a, 'c': []}
    kinds = ['pipe', 'pipe', 'coal', 'or', 'and', 'switch', 'spec', 'fill', 'match']
    kinds += ['tup', 'tup', 'dict'] if mode != 'MATCH' else ['mdict', 'mdict']
    k = rng.choice(kinds)

    def sub(m=mode):
        return rand_tree(rng, depth - 1, m)
    if k == 'spec':
        return {'k': 'spec', 'a': rng.choice('xy'), 'c': [sub()]}
    if k in ('fill', 'match'):
        return {'k': k, 'a': '', 'c': [sub({'fill': 'FILL', 'match': 'MATCH'}[k])]}
    if k in ('tup', 'pipe', 'dict', 'coal', 'or', 'and'):
        return {'k': k, 'a': '', 'c': [sub() for _ in range(rng.randint(1 if k != 'or' else 2, 3))]}
    if k == 'switch':
        return {'k': k, 'a': '', 'c': [sub() for _ in range(2 * rng.randint(1, 2))]}
    key = sub()
    while has_dict(key):
        key = sub()
    return {'k': 'mdict', 'a': '', 'c': [key, sub()]}


def has_dict(t):
    return t['k'] in ('dict', 'mdict') or any(has_dict(c) for c in t['c'])


def record(check, n, seed):
    rng = random.Random(seed)
    rows = []
    while len(rows) < n:
        tree = rand_tree(rng, rng.randint(3, 5))
        caller = rng.random() < 0.5
        o1, log, why = run_tree(tree, caller)
        if not log:
            continue
        if why:
            check.violation(dict(tree=tree, text=repr(o1['spec'])), why, matcher=match_finding)
            continue
        rows.append(dict(tree=tree, caller=caller, out=o1['out'], log=log, text=repr(o1['spec'])))
    rejects = vlib.validate_rows(check, 'Trace_C07', rows, 'random-trees', chunk=1500)
    ndrift = 0
    for row, rej in rejects:
        if rej['clause'].startswith('drift'):
            ndrift += 1
            check.extra.setdefault('drift_examples', []).append(dict(clause=rej['clause'], text=row['text']))
            continue
        check.violation(dict(tree=row['tree'], caller=row['caller'], log=row['log'], text=row['text'], clause=rej['clause']),
                        'recorded execution rejected by the specification (%s): %s log %s' % (rej['clause'], row['text'], row['log']),
                        matcher=match_finding)
    check.extra['drift_recorded'] = ndrift
    check.sample(dict(kind='recorded', text=rows[0]['text'], log=rows[0]['log']), limit=6)
    return len(rows)


def vars_cases(check):
    """Vars / S.globals live exactly as long as one top-level call (hand-written cases, run twice)"""
    cases = [
        ('vars', (S(v=Vars()), A.v.k, S.v.k)),
        ('vars-default', (S(v=Vars(k=0)), {'a': S.v.k, 'b': (A.v.k, S.v.k)})),
        ('globals', (A.globals.g, {'a': S.globals.g, 'b': ('x', A.globals.g, S.globals.g)})),
        ('globals-missing', Coalesce(S.globals.g, default='none')),
    ]
    bad = 0
    for name, spec in cases:
        t = {'x': 1}
        r1 = glom.glom(t, spec)
        r2 = glom.glom(t, spec)
        check.cov['evaluations'] += 2
        if r1 != r2:
            bad += 1
            check.violation(dict(case=name, first=repr(r1), second=repr(r2)),
                            'state survived a top-level call: %s gives %r then %r' % (name, r1, r2), matcher=match_finding)
    r = glom.glom({}, ((A.globals.g), Coalesce(S.globals.g, default='none')))
    r2 = glom.glom({}, Coalesce(S.globals.g, default='none'))
    if r2 != 'none':
        check.violation(dict(case='globals-next-call', got=repr(r2)), 'S.globals survived into the next call', matcher=match_finding)
    check.validated(len(cases) + 1 - bad)


def match_finding(f, case):
    return False


def main(tier, seed):
    check = vlib.Check(PROP, tier, seed)
    if tier == 'thorough':
        FLAVOURS.append('dict')
    runs = {'quick': [dict(MaxDepth=2, SecondDepth=0, Family='"scope"'), dict(MaxDepth=2, SecondDepth=0, Family='"vars"'),
                      dict(MaxDepth=2, SecondDepth=1, Family='"ref"'), dict(MaxDepth=2, SecondDepth=0, Family='"kw"'),
                      dict(MaxDepth=2, SecondDepth=0, Family='"deep"')],
            'thorough': [dict(MaxDepth=2, SecondDepth=1, Family='"scope"'), dict(MaxDepth=2, SecondDepth=1, Family='"vars"'),
                         dict(MaxDepth=2, SecondDepth=1, Family='"ref"'), dict(MaxDepth=2, SecondDepth=0, Family='"kw"'),
                         dict(MaxDepth=2, SecondDepth=0, Family='"deep"')]}[tier]
    results = []
    for consts in runs:
        res, rs = vlib.map_states('MC_C07', worker, constants=consts)
        check.add_tlc(res, 'MC_C07 %s' % consts)
        results += rs
    consts = runs
    for r in results:
        check.cov['evaluations'] += r['n']
        check.cov['distinct_nontrivial'] += r['nontrivial']
        check.validated(r['n'] - len(r['bad']))
        for s in r['samples']:
            check.sample(s)
        for b in r['bad']:
            check.violation(b['case'], b['why'], matcher=match_finding)
    vars_cases(check)
    check.extra['recorded_rows'] = record(check, {'quick': 3000, 'thorough': 30000}[tier], seed)
    check.extra['constants'] = consts
    check.assumptions += ['a Ref definition never contains a Ref use in this universe (recursion on nested data is exercised by '
                          'C03); Regex named groups bind like S(..) in their own frame and are not enumerated',
                          'A.x binds the target it receives: the law predicts the binder, the mechanism model the exact target']
    return check.finish(rule='TLC enumerates trees of depth <= MaxDepth over 8 binary composites, Spec(scope=), Fill, Match and 6 leaves '
                        'by constructor choice, with / without x in the caller scope, keeping trees with at least one binder and one '
                        'reader; non-trivial = at least one reader ran', exhaustive=True)
