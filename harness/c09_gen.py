"""Seeded random generators for the code -> spec direction of C09: patterns of the Match
grammar deeper than the exhaustive bound, targets derived to conform, one-edit mutations.
The generators only steer towards interesting rows; the verdict on every row is TLC's
(spec/Trace_C09.tla)."""
import c09_build as B

STRS = B.STR_U
SCALARS = ([{'k': 'int', 'i': i} for i in (-1, 0, 1, 2, 3)] + [{'k': 'bool', 'b': True}, {'k': 'bool', 'b': False},
           {'k': 'none'}] + [{'k': 'str', 's': s} for s in STRS])
TYPE_NAMES = ['int', 'str', 'bool', 'object', 'list', 'dict', 'tuple', 'set', 'frozenset', 'NoneType']


def lit(v):
    return {'op': 'lit', 'v': v}


def is_hashable_tree(t):
    if t['k'] != 'c':
        return True
    if t['cls'] in ('tuple', 'frozenset'):
        return all(is_hashable_tree(x) for x in t['items'])
    return False


def pyeq_key(t):
    """Python-equality key of a hashable tree (1 == True)."""
    return B.tree_py(t)


def rand_scalar(rng):
    return dict(rng.choice(SCALARS))


def rand_set(rng):
    pool = [{'k': 'int', 'i': 1}, {'k': 'int', 'i': 2}, {'k': 'str', 's': 'a'}, {'k': 'none'}]
    return {'k': 'c', 'cls': rng.choice(['set', 'frozenset']), 'items': rng.sample(pool, rng.randint(0, 3))}


def rand_item(rng):
    """a scalar in a position where a value that is == to everything may stand (not a key, not in a set)"""
    return {'k': 'any'} if rng.random() < 0.04 else rand_scalar(rng)


def rand_tree(rng, depth, hashable=False):
    if depth <= 0 or rng.random() < 0.35:
        return rand_scalar(rng) if hashable else rand_item(rng)
    # (flist / fdict: falsy whatever they hold; ntuple: a tuple subclass with its own constructor)
    classes = ['tuple', 'frozenset'] if hashable else ['list', 'list', 'tuple', 'set', 'frozenset', 'dict', 'dict', 'odict',
                                                       'flist', 'fdict', 'ntuple', 'fset']
    cls = rng.choice(classes)
    n = rng.randint(0, 3)
    if cls in ('dict', 'odict', 'fdict'):
        items, seen = [], set()
        for _ in range(n):
            k = rand_tree(rng, min(depth - 1, 1), hashable=True) if rng.random() < 0.15 else rand_scalar(rng)
            if pyeq_key(k) in seen:
                continue
            seen.add(pyeq_key(k))
            items.append({'key': k, 'val': rand_tree(rng, depth - 1)})
        return {'k': 'c', 'cls': cls, 'items': items}
    if cls in ('set', 'frozenset', 'fset'):
        items, seen = [], set()
        for _ in range(n):
            x = rand_scalar(rng)
            if pyeq_key(x) in seen:
                continue
            seen.add(pyeq_key(x))
            items.append(x)
        return {'k': 'c', 'cls': cls, 'items': items}
    return {'k': 'c', 'cls': cls, 'items': [rand_tree(rng, depth - 1, hashable=hashable or cls == 'tuple' and False)
                                             for _ in range(n)]}


# ---- patterns ---------------------------------------------------------------------------------
def gen_leaf(rng, hashable_only=False):
    r = rng.random()
    if r < 0.25:
        return lit(rand_scalar(rng))
    if r < 0.5:
        return {'op': 'type', 't': rng.choice(TYPE_NAMES)}
    if r < 0.62:
        return {'op': 'regex', 'name': rng.choice(['ra', 'rb', 'rs', 'rA']), 'func': rng.choice(['fullmatch', 'match', 'search']),
                'flags': rng.choice(['', '', 'I'])}
    if r < 0.72:
        return {'op': 'pred', 'name': rng.choice(['yes', 'no', 'truthy', 'isnum', 'falsy', 'boom', 'boom_attr', 'recip', 'head']), 'id': 0}
    if r < 0.95:
        rhs = rng.choice([{'k': 'int', 'i': 0}, {'k': 'int', 'i': 1}, {'k': 'str', 's': 'a'}, {'k': 'str', 's': 'b'},
                          {'k': 'none'}, {'k': 'bool', 'b': True}])
        if rng.random() < 0.2:               # a set operand: inclusion is only a partial order
            rhs = rand_set(rng)
        return {'op': 'm', 'cmp': rng.choice(['==', '!=', '<', '>', '<=', '>=']), 'rhs': rhs, 'refl': rng.random() < 0.3}
    return {'op': 'mtruthy'}


def gen_key(rng, depth):
    """a dict-spec key: literal, type, Optional(+default), Required, compound"""
    r = rng.random()
    if r < 0.35:
        return lit(rng.choice([{'k': 'str', 's': 'a'}, {'k': 'str', 's': 'b'}, {'k': 'str', 's': 'ab'}, {'k': 'int', 'i': 1},
                               {'k': 'int', 'i': 0}, {'k': 'bool', 'b': True}, {'k': 'none'}]))
    if r < 0.5:
        return {'op': 'type', 't': rng.choice(['str', 'int', 'object', 'bool', 'tuple'])}
    if r < 0.68:
        hasdef = rng.random() < 0.6
        key = rng.choice([{'k': 'str', 's': 'a'}, {'k': 'str', 's': 'b'}, {'k': 'str', 's': 'bb'}, {'k': 'int', 'i': 1}])
        dflt = rand_tree(rng, 1) if hasdef else {'k': 'none'}
        if hasdef and rng.random() < 0.2:       # a default holding T: resolved against the dict being matched
            dflt = {'k': 'c', 'cls': rng.choice(['list', 'tuple']), 'items': [{'k': 'targ', 'steps': []}, rand_scalar(rng)]}
        return {'op': 'optional', 'key': key, 'hasdef': hasdef, 'def': dflt}
    if r < 0.8:
        inner = rng.choice([{'op': 'type', 't': rng.choice(['str', 'int', 'object'])},
                            {'op': 'm', 'cmp': '!=', 'rhs': {'k': 'str', 's': 'b'}},
                            {'op': 'regex', 'name': 'ra', 'func': 'match'},
                            {'op': 'tuple', 'elems': [{'op': 'type', 't': 'str'}, lit({'k': 'int', 'i': 1})]}])
        return {'op': 'required', 'key': inner}
    if r < 0.9:
        n = rng.randint(0, 2)
        return {'op': 'tuple', 'elems': [rng.choice([lit({'k': 'str', 's': 'a'}), lit({'k': 'int', 'i': 1}),
                                                    {'op': 'type', 't': 'int'}, {'op': 'type', 't': 'str'}]) for _ in range(n)]}
    if r < 0.95:
        return {'op': 'or', 'form': 'ctor', 'hasdef': False, 'def': {'k': 'none'},
                'c': [lit({'k': 'str', 's': 'a'}), lit({'k': 'str', 's': 'b'})]}
    return rng.choice([{'op': 'm', 'cmp': '!=', 'rhs': {'k': 'str', 's': 'b'}}, {'op': 'm', 'cmp': '>', 'rhs': {'k': 'int', 'i': 0}},
                       {'op': 'regex', 'name': 'rb', 'func': 'search'}])


def spec_key_id(k):
    """identity of the Python dict key a spec key becomes (None: always a new object)"""
    if k['op'] == 'lit':
        return ('lit', B.tree_py(k['v']))
    if k['op'] == 'type':
        return ('type', k['t'])
    if k['op'] == 'tuple':
        return ('tuple', tuple(spec_key_id(e) for e in k['elems']))
    if k['op'] == 'optional':          # two Optionals for one key are outside the fragment
        return ('optional', B.tree_py(k['key']))
    return None


def gen_and_defaults(rng, depth):
    """And over a dict pattern that fills in Optional defaults and children that tell the target
    from the default-augmented dict (every child of And sees the target itself)"""
    keys = rng.sample(['a', 'b', 'bb'], rng.randint(1, 2))
    items = [[{'op': 'optional', 'key': {'k': 'str', 's': k}, 'hasdef': True, 'def': rand_tree(rng, 1)},
              rng.choice([{'op': 'type', 't': 'int'}, {'op': 'type', 't': 'object'}])] for k in keys]
    if rng.random() < 0.6:
        items.append([{'op': 'type', 't': 'str'}, gen_pattern(rng, depth - 1) if rng.random() < 0.3 else {'op': 'type', 't': 'object'}])
    filling = {'op': 'dict', 'items': items}
    aug = {'k': 'c', 'cls': 'dict', 'items': [{'key': it[0]['key'], 'val': it[0]['def']} for it in items if it[0]['op'] == 'optional']}
    empty = {'k': 'c', 'cls': 'dict', 'items': []}

    def telling():
        return rng.choice([{'op': 'm', 'cmp': '==', 'rhs': empty}, {'op': 'm', 'cmp': '!=', 'rhs': aug},
                           {'op': 'm', 'cmp': '==', 'rhs': aug}, {'op': 'pred', 'name': 'falsy', 'id': 0},
                           {'op': 'pred', 'name': 'truthy', 'id': 0}, {'op': 'dict', 'items': []},
                           {'op': 'dict', 'items': [[{'op': 'type', 't': 'str'}, {'op': 'type', 't': 'str'}]]},
                           {'op': 'not', 'form': 'ctor', 'c': [{'op': 'mtruthy'}]}, {'op': 'type', 't': 'dict'}])
    kids = [filling] + [telling() for _ in range(rng.randint(1, 2))]
    if rng.random() < 0.3:
        rng.shuffle(kids)
    p = {'op': 'and', 'form': 'ctor', 'hasdef': False, 'def': {'k': 'none'}, 'c': kids}
    if rng.random() < 0.25:
        p = {'op': 'or', 'form': 'ctor', 'hasdef': False, 'def': {'k': 'none'}, 'c': [p, gen_leaf(rng)]}
    return p


def gen_eqmix(rng):
    """(pattern, target): a list / tuple-in-list pattern that separates ==-equal values of different
    type (1 / True, 0 / False) and a list mixing them -- element-wise means every element"""
    nb = {'op': 'not', 'form': 'ctor', 'c': [{'op': 'type', 't': 'bool'}]}
    alts = rng.sample([{'op': 'type', 't': 'bool'}, nb, {'op': 'type', 't': 'str'}, lit({'k': 'str', 's': 'a'}),
                       {'op': 'and', 'form': 'ctor', 'hasdef': False, 'def': {'k': 'none'}, 'c': [{'op': 'type', 't': 'int'}, nb]},
                       {'op': 'm', 'cmp': '==', 'rhs': {'k': 'int', 'i': rng.choice([0, 1])}},
                       {'op': 'tuple', 'elems': [{'op': 'type', 't': 'bool'}]}], rng.randint(1, 2))
    pool = [{'k': 'int', 'i': 0}, {'k': 'int', 'i': 1}, {'k': 'bool', 'b': True}, {'k': 'bool', 'b': False},
            {'k': 'str', 's': 'a'}, {'k': 'c', 'cls': 'tuple', 'items': [{'k': 'int', 'i': 1}]},
            {'k': 'c', 'cls': 'tuple', 'items': [{'k': 'bool', 'b': True}]}]
    items = [dict(rng.choice(pool[:4] if rng.random() < 0.8 else pool)) for _ in range(rng.randint(2, 5))]
    p = {'op': 'list', 'alts': alts}
    t = {'k': 'c', 'cls': 'list', 'items': items}
    if rng.random() < 0.3:                      # one level down
        p = {'op': 'dict', 'items': [[{'op': 'type', 't': 'str'}, p]]}
        t = {'k': 'c', 'cls': 'dict', 'items': [{'key': {'k': 'str', 's': 'a'}, 'val': t}]}
    return p, t


def gen_pattern(rng, depth):
    if depth <= 0 or rng.random() < 0.2:
        return gen_leaf(rng)
    r = rng.random()
    if r < 0.06:
        return gen_and_defaults(rng, depth)
    if r < 0.11:                               # a Match nested in the pattern, with or without its own default
        hasdef = rng.random() < 0.6
        return {'op': 'match', 'sub': gen_pattern(rng, depth - 1), 'hasdef': hasdef,
                'def': rand_tree(rng, 1) if hasdef else {'k': 'none'}}
    if r < 0.12:
        return {'op': rng.choice(['and', 'or']), 'form': 'ctor', 'hasdef': False, 'def': {'k': 'none'},
                'c': [gen_pattern(rng, depth - 1) for _ in range(rng.randint(1, 3))]}
    if r < 0.18:
        return {'op': 'not', 'form': 'ctor', 'c': [gen_pattern(rng, depth - 1)]}
    if r < 0.36:
        return {'op': 'list', 'alts': [gen_pattern(rng, depth - 1) for _ in range(rng.randint(0, 3))]}
    if r < 0.46:
        op = rng.choice(['set', 'frozenset'])
        alts, seen = [], set()
        for _ in range(rng.randint(0, 2)):
            a = gen_leaf(rng)
            if a['op'] in ('pred', 'mtruthy'):     # M itself is not hashable
                continue
            key = repr(a)
            if key in seen or (a['op'] == 'lit' and any(x['op'] == 'lit' and B.tree_py(x['v']) == B.tree_py(a['v']) for x in alts)):
                continue
            seen.add(key)
            alts.append(a)
        return {'op': op, 'alts': alts}
    if r < 0.58:
        return {'op': 'tuple', 'elems': [gen_pattern(rng, depth - 1) for _ in range(rng.randint(0, 3))]}
    items, ids = [], set()
    for _ in range(rng.randint(0, 4)):
        k = gen_key(rng, depth)
        i = spec_key_id(k)
        if i is not None:
            try:
                if i in ids:
                    continue
                ids.add(i)
            except TypeError:
                continue
        items.append([k, gen_pattern(rng, depth - 1)])
    return {'op': 'dict', 'items': items}


# ---- a target meant to conform -----------------------------------------------------------------
def _holds_scalar(p, v):
    """Python's own verdict for a leaf on a scalar (steering only)."""
    x = B.tree_py(v)
    try:
        if p['op'] == 'm':
            if p.get('refl'):
                return bool(B.CMP[p['cmp']](B.tree_py(p['rhs']), x))
            return bool(B.CMP[p['cmp']](x, B.tree_py(p['rhs'])))
        if p['op'] == 'mtruthy':
            return bool(x)
        if p['op'] == 'pred':
            return bool(B.PRED_FN[p['name']](x))
    except Exception:
        return False
    return False


def conforming(rng, p, hashable=False):
    op = p['op']
    if op == 'lit':
        return p['v']
    if op == 'type':
        t = p['t']
        pool = {'int': [{'k': 'int', 'i': 1}, {'k': 'int', 'i': 0}, {'k': 'bool', 'b': True}, {'k': 'int', 'i': 3}],
                'bool': [{'k': 'bool', 'b': True}, {'k': 'bool', 'b': False}],
                'str': [{'k': 'str', 's': s} for s in STRS], 'NoneType': [{'k': 'none'}]}
        if t in pool:
            return dict(rng.choice(pool[t]))
        if t == 'object':
            return rand_tree(rng, 1, hashable=hashable)
        if hashable and t not in ('tuple', 'frozenset'):
            return None
        if t == 'dict':
            tr = rand_tree(rng, 1)
            return {'k': 'c', 'cls': rng.choice(['dict', 'odict']), 'items': [{'key': rand_scalar(rng), 'val': tr}]}
        return {'k': 'c', 'cls': t, 'items': [rand_scalar(rng)] if rng.random() < 0.6 else []}
    if op == 'regex':
        name = 'ra' if p['name'] == 'rA' else p['name']
        strs = sorted(B.REGEX_TAB[name][p['func']])
        return {'k': 'str', 's': rng.choice(strs)}
    if op == 'match':
        return conforming(rng, p['sub'], hashable)
    if op in ('m', 'mtruthy', 'pred'):
        if op == 'm' and p['rhs']['k'] == 'c' and p['rhs']['cls'] in ('set', 'frozenset'):
            st = rand_set(rng)               # comparable or not: both are of interest
            if hashable:
                st['cls'] = 'frozenset'
            return st
        cands = [v for v in SCALARS if _holds_scalar(p, v)]
        return dict(rng.choice(cands)) if cands else None
    if op == 'and':
        dicts = [c for c in p['c'] if c['op'] == 'dict' and c['items']]
        return conforming(rng, rng.choice(dicts or p['c']), hashable)
    if op == 'or':
        return conforming(rng, rng.choice(p['c']), hashable)
    if op == 'not':
        return rand_tree(rng, 1, hashable=hashable)
    if op in ('list', 'set', 'frozenset'):
        if hashable and op != 'frozenset':
            return None
        items, seen = [], set()
        if p['alts']:
            for _ in range(rng.randint(0, 3)):
                x = conforming(rng, rng.choice(p['alts']), hashable=op != 'list')
                if x is None:
                    continue
                if op != 'list':
                    if not is_hashable_tree(x) or pyeq_key(x) in seen:
                        continue
                    seen.add(pyeq_key(x))
                items.append(x)
        return {'k': 'c', 'cls': op, 'items': items}
    if op == 'tuple':
        items = [conforming(rng, e, hashable) for e in p['elems']]
        if any(x is None for x in items):
            return None
        return {'k': 'c', 'cls': 'tuple', 'items': items}
    if op == 'dict':
        if hashable:
            return None
        items, seen = [], set()
        for k, v in p['items']:
            required = k['op'] == 'required' or (k['op'] not in ('optional',) and _is_eq_key(k))
            if not required and rng.random() < 0.4:
                continue
            kp = k['key'] if k['op'] == 'required' else (lit(k['key']) if k['op'] == 'optional' else k)
            for _ in range(rng.randint(1, 2) if kp['op'] != 'lit' else 1):
                kt = conforming(rng, kp, hashable=True)
                vt = conforming(rng, v)
                if kt is None or vt is None or not is_hashable_tree(kt) or pyeq_key(kt) in seen:
                    continue
                seen.add(pyeq_key(kt))
                items.append({'key': kt, 'val': vt})
        if rng.random() < 0.3:
            rng.shuffle(items)
        return {'k': 'c', 'cls': 'odict' if rng.random() < 0.15 else 'dict', 'items': items}
    return None


def _is_eq_key(k):
    if k['op'] == 'lit':
        return True
    if k['op'] == 'tuple':
        return all(_is_eq_key(e) for e in k['elems'])
    return False


# ---- one-edit mutations ----------------------------------------------------------------------
def mutate(rng, t):
    import copy
    t = copy.deepcopy(t)
    nodes = []

    def walk(v, setter, in_key):
        nodes.append((v, setter, in_key))
        if v['k'] == 'c':
            for i, x in enumerate(v['items']):
                if v['cls'] in B.MAPCLS:
                    walk(x['val'], (x, 'val'), False)
                elif v['cls'] in ('list', 'tuple') and not in_key:
                    walk(x, (v['items'], i), in_key)
    holder = {'root': t}
    walk(t, (holder, 'root'), False)
    v, (cont, idx), in_key = rng.choice(nodes)
    r = rng.random()
    if v['k'] != 'c' or r < 0.2:
        cont[idx] = rand_scalar(rng) if rng.random() < 0.8 else rand_tree(rng, 1)
    elif r < 0.45 and v['items']:
        del v['items'][rng.randrange(len(v['items']))]
    elif r < 0.75:
        if v['cls'] in B.MAPCLS:
            k = rand_scalar(rng)
            if all(B.tree_py(e['key']) != B.tree_py(k) for e in v['items']):
                v['items'].insert(rng.randint(0, len(v['items'])), {'key': k, 'val': rand_scalar(rng)})
        elif v['cls'] in ('set', 'frozenset', 'fset'):
            x = rand_scalar(rng)
            if all(B.tree_py(e) != B.tree_py(x) for e in v['items']):
                v['items'].append(x)
        else:
            v['items'].insert(rng.randint(0, len(v['items'])), rand_scalar(rng))
    else:
        swap = {'list': rng.choice(['tuple', 'flist']), 'tuple': rng.choice(['list', 'ntuple']), 'dict': rng.choice(['odict', 'fdict']),
                'odict': 'dict', 'set': rng.choice(['frozenset', 'fset']), 'frozenset': 'set', 'flist': 'list', 'fdict': 'dict',
                'ntuple': 'tuple', 'fset': 'set'}
        v['cls'] = swap[v['cls']]
    out = holder['root']
    return out if _buildable(out) else t


def _buildable(t):
    try:
        B.tree_py(t)
        return True
    except TypeError:
        return False


def untree(cells, root):
    """heap cells + root value -> tree (inverse of c09_build.tree_cells for acyclic heaps)"""
    if root['k'] != 'ref':
        return root
    c = cells[root['a'] - 1]
    if c['cls'] in B.MAPCLS:
        return {'k': 'c', 'cls': c['cls'], 'items': [{'key': untree(cells, k), 'val': untree(cells, v)} for k, v in c['items']]}
    return {'k': 'c', 'cls': c['cls'], 'items': [untree(cells, x) for x in c['items']]}


def plainify(t):
    """the same value with the falsy container subclasses replaced by their base classes"""
    if t['k'] != 'c':
        return t
    t = dict(t)
    t['cls'] = {'flist': 'list', 'fdict': 'dict'}.get(t['cls'], t['cls'])
    t['items'] = [{'key': plainify(e['key']), 'val': plainify(e['val'])} if t['cls'] in B.MAPCLS else plainify(e) for e in t['items']]
    return t


def has_empty_alts(p):
    import json
    return '"alts": []' in json.dumps(p)
