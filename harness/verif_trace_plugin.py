"""pytest plugin (loaded with -p verif_trace_plugin): records the scope events of every glom() call
made while the repository's own tests run (GLOM_VERIF hook), one JSON row per top-level scope tree,
into $VERIF_TRACE_OUT.  Frames are numbered per tree in creation order; the root scope is frame 1."""
import atexit
import json
import os

import glom
from glom.core import MODE, MIN_MODE, AUTO, FILL, Auto, Fill
from glom.matching import Match, _glom_match
from glom.grouping import Group, GROUP

MODES = {AUTO: 'AUTO', FILL: 'FILL', _glom_match: 'MATCH', GROUP: 'GROUP'}
WRAP = {Auto: 'AUTO', Fill: 'FILL', Match: 'MATCH', Group: 'GROUP'}
ROWS = []
TREES = {}      # id(root map) -> dict(events, ids)
FRAME_TREE = {}  # id(frame map) -> tree
KEEP = []
LIMIT = 250      # events per tree (longer trees are not written)


def _tree_of(scope_map, parent_map):
    t = FRAME_TREE.get(id(parent_map))
    if t is None:
        t = {'events': [], 'ids': {id(parent_map): 1}, 'custom': False}
        TREES[id(parent_map)] = t
        FRAME_TREE[id(parent_map)] = t
        KEEP.append(parent_map)
        ROWS.append(t)
    return t


def hook(ev, scope, other):
    try:
        if ev == 'enter':
            m, pm = scope.maps[0], other.maps[0]
            t = _tree_of(m, pm)
            FRAME_TREE[id(m)] = t
            KEEP.append(m)
            t['ids'][id(m)] = len(t['ids']) + 1
            spec = m.get(glom.Spec)
            kind = WRAP.get(type(spec), 'other')
            mode = MODES.get(scope[MODE])     # the mode in force for this scope, wherever it is stored
            if mode is None:
                t['custom'] = True
                mode = 'OTHER'
            if len(t['events']) < LIMIT:
                t['events'].append({'a': 'enter', 'f': t['ids'][id(m)], 'par': t['ids'][id(pm)], 'mode': mode,
                                    'minmode': scope[MIN_MODE] is not None, 'kind': kind})
        elif ev == 'chain':
            t = FRAME_TREE.get(id(scope.maps[0]))
            if t is not None and id(other.maps[0]) in t['ids'] and len(t['events']) < LIMIT:
                t['events'].append({'a': 'chain', 'f': t['ids'][id(scope.maps[0])], 'par': t['ids'][id(other.maps[0])],
                                    'mode': '', 'minmode': False, 'kind': ''})
    except Exception as e:     # never disturb the tests
        ROWS.append({'events': [], 'ids': {}, 'custom': True, 'error': repr(e)})


def _dump():
    out = os.environ.get('VERIF_TRACE_OUT')
    if not out:
        return
    with open(out, 'w') as f:
        for t in ROWS:
            if t['events'] and not t['custom'] and len(t['events']) < LIMIT:
                f.write(json.dumps({'events': t['events']}, separators=(',', ':')) + '\n')


glom.core._verif_install(hook)
atexit.register(_dump)
