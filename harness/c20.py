"""C20  Concurrent and re-entrant glom calls behave exactly as when run alone.

Model checking: spec/MC_C20.tla (GlomCalls with 2-3 processes) explores every interleaving
of the yield points AND of the separate check / create / store / fetch steps on the path
cache and the type memo; the non-interference laws are TLC invariants.
spec -> code: the same machine at the granularity the harness can enforce (Gates = {"yield"},
and {"yield","p"} for bare string paths) prints every complete schedule; each one is replayed
with REAL THREADS: instrumented custom specs / callables (and a str subclass that yields in
__hash__ / split, i.e. inside Path.from_text) park on per-thread semaphores and the scheduler
releases them in the order of the TLC behaviour.  Per call, the outcome, the observations made
at every yield point (own target, mode, visible bindings, accumulator, nesting depth) and the
error text are compared with the model's prediction and with the same call run alone in a
pristine interpreter.  Re-entrant calls (depth <= 3, inner failure caught by an outer Coalesce)
are ordinary pool members, so they are replayed both alone and interleaved.
code -> spec: free-running threads under sys.setswitchinterval(1e-6) over the TLC pool and
random calls; every call is compared with its isolated run, and the merged session (cache
events in the order they took effect + call outcomes) is validated by TLC (Trace_C20).
"""
import json
import multiprocessing as mp
import random
import sys
import threading
import time
import warnings

import glom

import vlib
import c06_build as B
import c06
from c06 import in_child, Oracle
from c20_sched import Sched

PROP = 'C20'


class GateStr(str):
    """a string spec whose dictionary lookups and split() are yield points: Path.from_text's
    `text not in cache`, `text.split('.')`, `cache[text] = ..` and `return cache[text]` each
    start with one of them"""
    ctx = None

    def __hash__(self):
        self.ctx.gate()
        return str.__hash__(self)

    def __eq__(self, other):
        return str.__eq__(self, other)

    def split(self, *a, **k):
        self.ctx.gate()
        return str.split(self, *a, **k)


def _gatestr_factory(ctx):
    cls = type('GateStr', (GateStr,), {'ctx': ctx})
    return lambda text, at: cls(text)


# ---- replay of one schedule with real threads ----------------------------------------------------
def _replay_schedule(hist, pool, maxcache, gated_paths):
    """in a pristine child: configuration events, then threads under the scheduler"""
    warnings.simplefilter('ignore')
    B.set_max_cache(maxcache)
    ctx = B.Ctx()
    builder = B.Builder(ctx, _gatestr_factory(ctx) if gated_paths else None)
    nprocs = max([ev['p'] for ev in hist if 'p' in ev] or [0])
    sched = Sched(ctx, nprocs)
    star, regs = True, []
    obs = {}
    mismatch = None

    def body(bc):
        def run():
            before = B.snap_call(bc)
            out, text = B.run_call(ctx, bc)
            return out, text, B.snap_diff(before, B.snap_call(bc))
        return run
    try:
        for ev in hist:
            if ev['e'] == 'toggle':
                glom.core.PATH_STAR = star = not star
            elif ev['e'] == 'reg':
                B.apply_registration(ev['r'])
                regs.append(ev['r'])
            elif ev['e'] == 'begin':
                sched.begin(ev['p'], body(builder.call(pool[ev['c'] - 1])))
            elif ev['e'] == 'step':
                if not sched.step(ev['p']):
                    mismatch = 'thread %d had already finished when the schedule stepped it (%s)' % (ev['p'], ev['k'])
                    if not gated_paths:
                        break       # (steps inside Path.from_text are mechanism-level: go on)
            elif ev['e'] == 'end':
                p = ev['p']
                if not sched.done[p]:
                    mismatch = 'thread %d is still running where the model says its call has finished' % p
                    if not gated_paths:
                        break
    finally:
        sched.drain()
    for p in range(1, nprocs + 1):
        if sched.error[p] is not None:
            raise vlib.MachineryError('thread %d: %r' % (p, sched.error[p]))
        obs[p] = sched.result[p]
    return dict(obs=obs, mismatch=mismatch, star=star, regs=regs, gates=sched.gates)


_CFG = {}


def _check_schedule(hist, pool, maxcache, gated, oracle, out):
    r = in_child(_replay_schedule, hist, pool, maxcache, gated)
    ends = {ev['p']: ev for ev in hist if ev['e'] == 'end'}
    begins = {ev['p']: ev['c'] for ev in hist if ev['e'] == 'begin'}
    sched = [{k: v for k, v in ev.items() if k in ('e', 'p', 'c', 'k', 'r')} for ev in hist if ev['e'] != 'end']
    case = dict(kind='schedule', schedule=sched, maxcache=maxcache, gated_paths=gated, hist=hist, pool=pool)
    out['n'] += 1
    if r['mismatch'] and not gated:
        # the call made more / fewer user-callable invocations than the specification says
        out['bad'].append(dict(why='schedule mismatch: ' + r['mismatch'], case=case))
        return
    if r['mismatch']:
        # Path.from_text performs other dictionary operations than the transcribed ones: mechanism
        # drift; the threads were still interleaved inside from_text and every outcome is judged
        out['drift'] += 1
    for p, c in sorted(begins.items()):
        got, text, diff = r['obs'][p]
        call = pool[c - 1]
        iso_out, iso_text, _ = oracle.get(call, r['star'], r['regs'], gated)
        pred = B.strip_pred(ends[p]['out'])
        why = None
        if got != iso_out:
            why = 'thread %d: outcome / observations %s differ from the isolated run %s' % (
                p, json.dumps(got)[:400], json.dumps(iso_out)[:400])
        elif text != iso_text:
            why = 'thread %d: error text differs from the isolated run' % p
        elif got != pred:
            why = 'thread %d: outcome / observations %s differ from the specification\'s prediction %s' % (
                p, json.dumps(got)[:400], json.dumps(pred)[:400])
        if why is None and B.has_log(call):
            v_out, v_text, _ = oracle.get(B.unlogged(call), r['star'], r['regs'], gated)
            if (v_out, v_text) != (iso_out, iso_text):
                why = ('thread %d: rendering the inner call\'s error (str(e)) before re-raising it changed the outer call: '
                       'outcome / error text differ from the same call without the str()' % p)
        if why is None and diff:
            why = 'thread %d: %s changed (structure or identity) during the call' % (p, diff)
        out['calls'] += 1
        if why:
            out['bad'].append(dict(why=why, case=dict(case, thread=p, observed=got, isolated=iso_out, predicted=pred,
                                                      text=text[:800], isolated_text=iso_text[:800])))
            return
    steps = sum(1 for ev in sched if ev['e'] == 'step')
    if steps >= 2 and len(begins) >= 2:
        out['nontrivial'] += 1


def _fresh_call_gated(call, star, regs, gated):
    warnings.simplefilter('ignore')
    glom.core.PATH_STAR = star
    for r in regs:
        B.apply_registration(r)
    ctx = B.Ctx()
    bc = B.Builder(ctx, _gatestr_factory(ctx) if gated else None).call(call)
    before = B.snap_call(bc)
    out, text = B.run_call(ctx, bc)
    return out, text, B.snap_diff(before, B.snap_call(bc))


class Oracle20:
    def __init__(self):
        self.memo = {}

    def get(self, call, star, regs, gated=False):
        key = (json.dumps(call, sort_keys=True), star, tuple(regs), gated)
        if key not in self.memo:
            self.memo[key] = in_child(_fresh_call_gated, call, star, list(regs), gated)
        return self.memo[key]


def _sched_chunk(args):
    hists, pool, maxcache, gated = args
    out = dict(n=0, calls=0, nontrivial=0, bad=[], drift=0)
    oracle = _CFG.setdefault('oracle', Oracle20())
    for h in hists:
        _check_schedule(h, pool, maxcache, gated, oracle, out)
    return out


def replay_config(check, label, consts, gated=False):
    """run the replay configuration in TLC, replay every printed schedule"""
    c = dict(dict(MaxCalls=1), **dict(consts, ToggleAnytime='FALSE', RegisterAnytime='FALSE', RecHist='TRUE', Mutant='""'))
    res = vlib.run_tlc('MC_C20', cfg='MC_C20_replay', constants=c, timeout=3000, heap='3g' if consts.get('MaxRegs', 0) + consts.get('MaxToggles', 0) == 0 else '6g')
    vlib.tlc_must_pass(res, 'MC_C20 replay ' + label)
    check.add_tlc(res, 'MC_C20 replay %s %s' % (label, consts))
    pool = [j['pool'] for j in res['json'] if 'pool' in j][0]
    seen, hists = set(), []
    for j in res['json']:
        if 'hist' in j:
            k = json.dumps(j['hist'], sort_keys=True)
            if k not in seen:
                seen.add(k)
                hists.append(j['hist'])
    if not hists:
        raise vlib.MachineryError('no schedule printed for ' + label)
    n = vlib.NCPU * 4
    chunks = [(hists[i::n], pool, consts['MaxCache'], gated) for i in range(n) if hists[i::n]]
    tot = dict(n=0, calls=0, nontrivial=0, drift=0)
    with mp.get_context('fork').Pool(vlib.NCPU) as p:
        for r in p.imap_unordered(_sched_chunk, chunks):
            for k in tot:
                tot[k] += r[k]
            check.cov['evaluations'] += r['calls']
            check.cov['distinct_nontrivial'] += r['nontrivial']
            check.validated(r['n'] - len({json.dumps(b['case']['schedule']) for b in r['bad']}))
            for b in r['bad']:
                check.violation(b['case'], b['why'], matcher=match_finding)
    h = hists[len(hists) // 2]
    check.sample(dict(kind='schedule-' + label, schedule=[{k: v for k, v in ev.items() if k in ('e', 'p', 'c', 'k', 'r')}
                                                         for ev in h if ev['e'] != 'end'],
                      predicted={ev['p']: B.strip_pred(ev['out']) for ev in h if ev['e'] == 'end'}), limit=6)
    check.extra.setdefault('schedules_replayed', {})[label] = tot['n']
    if tot['drift']:
        check.extra.setdefault('mechanism_drift_schedules', {})[label] = tot['drift']
    return pool


# ---- free-running threads -----------------------------------------------------------------------
def _free_session(calls, plan, maxcache, star, regs, seed):
    """in a pristine child: threads run their calls freely; returns per-call results and the
    ordered event list"""
    warnings.simplefilter('ignore')
    log = B.EventLog()
    log.type_cache = all(c.get('spelling', 'plain') == 'plain' for c in calls)   # (subclass spellings: types the model does not name)
    B.install_logs(log, type_cache=log.type_cache)
    B.set_max_cache(maxcache)
    if not star:
        glom.core.PATH_STAR = False
        log.add({'e': 'toggle'})
    for r in regs:
        B.register_logged(r, log)
        log.add({'e': 'reg', 'r': r})
    ctx = B.Ctx()
    rng = random.Random(seed)
    delays = [rng.random() < 0.3 for _ in range(997)]
    counter = [0]

    def gate():
        counter[0] += 1
        if delays[counter[0] % 997]:
            time.sleep(0)
    ctx.gate_fn = gate
    builder = B.Builder(ctx)
    built = [builder.call(c) for c in calls]          # shared spec objects (by sid) AND shared targets
    results = []
    old = sys.getswitchinterval()
    sys.setswitchinterval(1e-6)
    barrier = threading.Barrier(len(plan))

    def body(tid, idxs):
        barrier.wait()
        for i in idxs:
            out, text = B.run_call(ctx, built[i])
            with log.lock:
                log.add({'e': 'call', 'p': tid, 'call': calls[i], 'out': out})
                results.append((i, out, text))
    try:
        ts = [threading.Thread(target=body, args=(tid, idxs)) for tid, idxs in enumerate(plan, 1)]
        for t in ts:
            t.start()
        for t in ts:
            t.join(1800)
            if t.is_alive():
                raise vlib.MachineryError('free-running thread did not finish')
    finally:
        sys.setswitchinterval(old)
    return results, log.events


def _free_chunk(args):
    seed, nsessions, pool = args
    rng = random.Random(seed)
    out = dict(n=0, calls=0, nontrivial=0, bad=[], rows=[])
    oracle = Oracle20()
    for _ in range(nsessions):
        sids = [1000]
        calls = list(pool) + [c06.rand_call(rng, sids) for _ in range(rng.randint(2, 5))]
        nthreads = rng.choice([2, 2, 3, 4])
        plan = [[rng.randrange(len(calls)) for _ in range(rng.randint(3, 8))] for _ in range(nthreads)]
        star = rng.random() < 0.7
        regs = [r for r in B.REGS if rng.random() < 0.25]
        maxcache = rng.choice([0, 1, 2, 5])
        results, events = in_child(_free_session, calls, plan, maxcache, star, regs, rng.randrange(1 << 30))
        out['n'] += 1
        for i, got, text in results:
            out['calls'] += 1
            iso_out, iso_text, _ = oracle.get(calls[i], star, regs)
            if got != iso_out or text != iso_text:
                out['bad'].append(dict(why='free-running threads: call outcome %s differs from the isolated run %s'
                                       % (json.dumps(got)[:300], json.dumps(iso_out)[:300]),
                                       case=dict(kind='free', call=calls[i], star=star, regs=regs, observed=got,
                                                 isolated=iso_out, text=text[:600], isolated_text=iso_text[:600])))
        out['nontrivial'] += 1
        out['rows'].append({'events': events, 'maxcache': maxcache, 'slack': nthreads - 1})
    return out


def free_running(check, pool, seed, nsessions, chunk=2):
    per = max(1, nsessions // (vlib.NCPU * 2))
    chunks = [(seed * 7919 + i, per, pool) for i in range(vlib.NCPU * 2)]
    rows = []
    with mp.get_context('fork').Pool(vlib.NCPU) as p:
        for r in p.imap_unordered(_free_chunk, chunks):
            check.cov['evaluations'] += r['calls']
            check.cov['distinct_nontrivial'] += r['nontrivial']
            rows.extend(r['rows'])
            for b in r['bad']:
                check.violation(b['case'], b['why'], matcher=match_finding)
    skipped = c06.trace_validate(check, rows, 'free-running', chunk, module='Trace_C20')
    check.extra['free_running_sessions'] = len(rows)
    check.extra['free_running_sessions_with_unmodelled_calls_skipped'] = skipped
    calls = [e for e in rows[0]['events'] if e['e'] == 'call']
    check.sample(dict(kind='free-running', threads=rows[0]['slack'] + 1, events=len(rows[0]['events']),
                      first_call=calls[0] if calls else None), limit=8)


# ---- boundary demonstration (informational, not part of the property) ------------------------------
def _register_race():
    """register() while another thread stands between the store and the final fetch of
    get_handler: the memo dict has been replaced, the fetch raises KeyError.  Outside C20's
    quantifier (registrations are configuration changes between calls); recorded as an
    observation only."""
    ctx = B.Ctx()
    sched = Sched(ctx, 1)
    hashes = []

    class Meta(type):
        def __hash__(cls):
            if sys._getframe(1).f_code.co_name == 'get_handler':
                hashes.append(1)
                if len(hashes) == 3:       # in get_handler: 1 `not in`, 2 store, 3 final fetch
                    ctx.gate()
            return type.__hash__(cls)

    class Tgt(metaclass=Meta):
        a = 1

    def run():
        try:
            return ('ok', glom.glom(Tgt(), 'a'))
        except Exception as e:     # noqa
            return ('err', type(e).__name__ + ': ' + B.codec.exc_class_name(e))
    sched.begin(1, run)
    parked = sched.parked[1]
    if parked:
        glom.register(B.A, get=B.h1)
        sched.step(1)
    sched.drain()
    return dict(parked_in_get_handler=parked, result=sched.result[1])


def _toggle_race():
    """PATH_STAR toggled while another thread stands between `cache = _CACHE[PATH_STAR]` and
    create(): a path parsed under the other setting is stored and served from then on.  Outside
    C20's quantifier; recorded as an observation only."""
    warnings.simplefilter('ignore')
    ctx = B.Ctx()
    sched = Sched(ctx, 1)
    text = _gatestr_factory(ctx)('*', ())
    target = {'*': 1, 'a': 2}
    sched.begin(1, lambda: glom.glom(target, text))      # parks in `text not in cache`
    sched.step(1)                                        # -> parks in text.split('.')
    glom.core.PATH_STAR = False
    sched.step(1)
    sched.drain()
    glom.core.PATH_STAR = True
    return dict(first_call=repr(sched.result[1]), later_call_with_star_on=repr(glom.glom(target, '*')),
                expected=repr([1, 2]))


def match_finding(f, case):
    return False


MUTANTS = ['globalmode', 'globalacc', 'publishearly', 'nostarkey', 'noreset']


def main(tier, seed):
    c06._assert_pristine()
    check = vlib.Check(PROP, tier, seed)
    try:
        return _main(check, tier, seed)
    except vlib.MachineryError as e:
        if not check.violations:
            raise
        # a machinery problem after violations were found must not mask them
        print('MACHINERY-PROBLEM after violations were found: %s' % str(e)[:300])
        return check.finish(rule='incomplete run: machinery problem after violations were found', exhaustive=False)


def _main(check, tier, seed):
    base = dict(MaxCalls=1, ToggleAnytime='FALSE', RegisterAnytime='FALSE', RecHist='FALSE', Mutant='""')
    # 1. model checking at the finest grain (cache steps separate)
    fine = {'quick': [dict(NProcs=2, PoolSize=9, PoolFrom=1, MaxCache=1, MaxToggles=1, MaxRegs=0, Gates='{"yield","p","t"}'),
                      dict(NProcs=2, PoolSize=25, PoolFrom=13, MaxCache=1, MaxToggles=0, MaxRegs=0, Gates='{"yield","p","t"}')],
            'thorough': [dict(NProcs=2, PoolSize=12, PoolFrom=1, MaxCache=1, MaxToggles=1, MaxRegs=0, Gates='{"yield","p","t"}'),
                         dict(NProcs=2, PoolSize=34, PoolFrom=4, MaxCache=1, MaxToggles=0, MaxRegs=1, Gates='{"yield","p","t"}'),
                         dict(NProcs=3, PoolSize=3, PoolFrom=3, MaxCache=0, MaxToggles=0, MaxRegs=0, Gates='{"yield","p","t"}'),
                         dict(NProcs=2, PoolSize=2, PoolFrom=10, MaxCache=0, MaxToggles=1, MaxRegs=0, Gates='{"yield","p","t"}')]}[tier]
    # (a separate interpreter, so that this one stays single-threaded for the forks below)
    code = ('import json,sys,vlib\n'
            'out=[]\n'
            'for consts in json.loads(sys.argv[1]):\n'
            '    r=vlib.run_tlc("MC_C20", constants=consts, timeout=3000, heap=sys.argv[2], workers=max(2, vlib.NCPU//2))\n'
            '    out.append({k: r[k] for k in ("ok","states","distinct","depth","violated","wall_s","rc")} | {"tail": r["out"][-25:], "coverage": {}})\n'
            'print("RESULT"+json.dumps(out))\n')
    import subprocess
    bg = subprocess.Popen([sys.executable, '-c', code, json.dumps([dict(base, **c) for c in fine]), {'quick': '4g', 'thorough': '8g'}[tier]],
                          stdout=subprocess.PIPE, stderr=subprocess.PIPE, text=True)
    # 2. replay of every schedule on real threads
    if tier == 'quick':
        pool = replay_config(check, 'yield-2', dict(NProcs=2, PoolSize=9, PoolFrom=1, MaxCache=1, MaxToggles=0, MaxRegs=0, Gates='{"yield"}'))
        pool = pool + replay_config(check, 'yield-2-args-glommer', dict(NProcs=2, PoolSize=6, PoolFrom=13, MaxCache=1, MaxToggles=0,
                                                                        MaxRegs=0, Gates='{"yield"}'))
        pool = pool + replay_config(check, 'yield-2-shared-objects', dict(NProcs=2, PoolSize=6, PoolFrom=19, MaxCache=1, MaxToggles=0,
                                                                          MaxRegs=0, Gates='{"yield"}'))
        pool = pool + replay_config(check, 'yield-2-ref-check', dict(NProcs=2, PoolSize=6, PoolFrom=25, MaxCache=1, MaxToggles=0,
                                                                     MaxRegs=0, Gates='{"yield"}'))
        pool = pool + replay_config(check, 'yield-2-classes-vars', dict(NProcs=2, PoolSize=7, PoolFrom=31, MaxCache=1, MaxToggles=0,
                                                                        MaxRegs=0, Gates='{"yield"}'))
    else:
        pool = replay_config(check, 'yield-2', dict(NProcs=2, PoolSize=9, PoolFrom=1, MaxCache=1, MaxToggles=1, MaxRegs=0, Gates='{"yield"}'))
        pool = pool + replay_config(check, 'yield-2-args-glommer', dict(NProcs=2, PoolSize=6, PoolFrom=13, MaxCache=1, MaxToggles=0,
                                                                        MaxRegs=1, Gates='{"yield"}'))
        pool = pool + replay_config(check, 'yield-2-shared-objects', dict(NProcs=2, PoolSize=6, PoolFrom=19, MaxCache=1, MaxToggles=1,
                                                                          MaxRegs=0, Gates='{"yield"}'))
        pool = pool + replay_config(check, 'yield-2-ref-check', dict(NProcs=2, PoolSize=6, PoolFrom=25, MaxCache=1, MaxToggles=0,
                                                                     MaxRegs=0, Gates='{"yield"}'))
        pool = pool + replay_config(check, 'yield-2-classes-vars', dict(NProcs=2, PoolSize=7, PoolFrom=31, MaxCache=1, MaxToggles=0,
                                                                        MaxRegs=0, Gates='{"yield"}'))
        replay_config(check, 'yield-2-registry', dict(NProcs=2, PoolSize=2, PoolFrom=4, MaxCache=1, MaxToggles=0, MaxRegs=1, Gates='{"yield"}'))
        replay_config(check, 'yield-3', dict(NProcs=3, PoolSize=4, PoolFrom=3, MaxCache=1, MaxToggles=0, MaxRegs=0, Gates='{"yield"}'))
    replay_config(check, 'pathcache-steps', dict(NProcs=2, PoolSize=2, PoolFrom=10, MaxCache=0, MaxToggles=1, MaxRegs=0,
                                                 Gates='{"yield","p"}'), gated=True)
    # 3. free-running threads, validated by TLC
    free_running(check, pool, seed, {'quick': 32, 'thorough': 600}[tier], chunk={'quick': 6, 'thorough': 50}[tier])
    so, se = bg.communicate(timeout=3600)
    line = [l for l in so.splitlines() if l.startswith('RESULT')]
    if bg.returncode != 0 or not line:
        raise vlib.MachineryError('model checking job failed: ' + se[-1500:])
    for consts, res in zip(fine, json.loads(line[0][6:])):
        if not res['ok']:
            raise vlib.MachineryError('TLC failed on MC_C20 %s (violated=%s):\n%s' % (consts, res['violated'], '\n'.join(res['tail'])))
        check.add_tlc(res, 'MC_C20 fine %s' % consts)
    # vacuity: every action / branch of the mechanism is taken (sequential fine-grained histories)
    vres = vlib.run_tlc('MC_C20', cfg='MC_C20_replay', heap='3g', timeout=1200,
                        constants=dict(base, NProcs=1, MaxCalls=2, PoolSize=12, PoolFrom=1, MaxCache=0, MaxToggles=1, MaxRegs=1,
                                       Gates='{"yield","p","t"}', RecHist='TRUE'))
    vlib.tlc_must_pass(vres, 'MC_C20 vacuity')
    check.add_tlc(vres, 'MC_C20 sequential fine-grained (vacuity)')
    cov = B.mechanism_coverage([j['hist'] for j in vres['json'] if 'hist' in j])
    B.require_coverage(cov)
    check.extra['mechanism_coverage'] = cov
    # 4. boundary observation and spec mutants
    # the spec-object zoo: a second evaluation of the same object inside the first one's user code
    import c06_zoo
    c06_zoo.run_c20(check, tier, seed, match_finding)
    check.extra['mechanism_unobservable'] = in_child(B.observability)
    for key, fn in (('boundary_observation_register_during_lookup', _register_race),
                    ('boundary_observation_toggle_during_from_text', _toggle_race)):
        try:        # informational demonstrations that lean on the private shape of the caches
            check.extra[key] = in_child(fn)
        except vlib.MachineryError as e:
            check.extra[key] = 'not reproducible on this glom: %s' % str(e).strip().splitlines()[-1][:200]
    if tier == 'thorough':
        mres = {}
        for m in MUTANTS:
            r = vlib.run_tlc('MC_C20', cfg='MC_C20_mutant',
                             constants=dict(base, NProcs=2, PoolSize=9, PoolFrom=1, MaxCache=1,
                                            MaxToggles=0 if m == 'noreset' else 1, MaxRegs=1 if m == 'noreset' else 0,
                                            Gates='{"yield","p","t"}', Mutant='"%s"' % m), timeout=3000, heap='8g')
            mres[m] = r['violated']
            if r['violated'] != 'NonInterference':
                raise vlib.MachineryError('spec mutant %s: NonInterference not violated (%s)' % (m, r['violated']))
        for name in ('ToggleAnytime', 'RegisterAnytime'):
            r = vlib.run_tlc('MC_C20', cfg='MC_C20_mutant',
                             constants=dict(dict(base, **{name: 'TRUE'}), NProcs=2, PoolSize=9, PoolFrom=1, MaxCache=1,
                                            MaxToggles=1 if name == 'ToggleAnytime' else 0,
                                            MaxRegs=1 if name == 'RegisterAnytime' else 0,
                                            Gates='{"yield","p","t"}'), timeout=3000, heap='8g')
            mres['boundary:' + name] = r['violated']
            if r['violated'] != 'NonInterference':
                raise vlib.MachineryError('%s configuration unexpectedly satisfies the law' % name)
        check.extra['spec_mutants_violate'] = mres
    check.assumptions += [
        'glom.core.PATH_STAR is toggled and register() is called only while no glom call is in progress: the model shows '
        '(configurations ToggleAnytime / RegisterAnytime) and a real-thread demonstration confirms that a configuration change '
        'racing with a call can poison Path._CACHE or raise KeyError in get_handler; the property quantifies over calls only',
        'threads are scheduled at user-callable invocations and, for bare string paths, at the dictionary operations of '
        'Path.from_text; interleavings at finer grain are covered by the model only (private steps commute)',
        'mode wrappers (Fill, Group) are never a non-last step of a tuple (C08\'s subject)',
        'wildcards on dicts / attribute objects only; "**", string iteration, big ints outside the model (rows skipped)',
        'CPython with the GIL; TLC, the Json community module and the value / spec codec are trusted']
    # outcome / trace differences first, frame-condition-only reports after them
    check.violations.sort(key=lambda v: 0 if 'differ' in v['why'] else 1)
    return check.finish(rule='TLC explores all interleavings of 2-3 calls (<= 4 yield points each, cache steps separate) and checks '
                        'non-interference; every schedule at harness granularity is replayed with real threads and each call compared '
                        'with the prediction and with its isolated run (value, observations, error class, error text); free-running '
                        'thread sessions are validated by TLC; non-trivial = >= 2 threads and >= 2 scheduling decisions',
                        exhaustive=True)


def replay(path):
    with open(path) as f:
        v = json.load(f)
    case = v['case']
    print('why:', v['why'])
    if case.get('kind') == 'zoo':
        import c06_zoo
        return c06_zoo.replay_case(case)
    if case.get('kind') == 'schedule':
        out = dict(n=0, calls=0, nontrivial=0, bad=[], drift=0)
        _check_schedule(case['hist'], case['pool'], case['maxcache'], case['gated_paths'], Oracle20(), out)
        print('schedule:', json.dumps(case['schedule']))
        for b in out['bad']:
            print('still disagrees:', b['why'][:1200])
        if not out['bad']:
            print('the schedule now agrees with the isolated runs and the prediction')
        return 1 if out['bad'] else 0
    if case.get('kind') == 'free':
        out = Oracle20().get(case['call'], case['star'], case['regs'])
        print('isolated now:', json.dumps(out[0])[:1500])
        print('observed then:', json.dumps(case['observed'])[:1500])
        return 1 if out[0] != case['observed'] else 0
    print(json.dumps(case)[:2000])
    return 1
