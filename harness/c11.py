"""C11  assign obeys the lens laws and fails atomically.

Specification: spec/GlomMutate.tla (machine EvalVal -> FetchParent.. -> [FactoryCall ->
FetchParent..]+ -> BuildTail+ -> Store with the heap as a variable, faults as environment
choices; law RefAssign + state laws NoEarlyWrite / AttachLast / FactoryLaw / NeverReplaced /
ReadBack checked by TLC in every intermediate state, spec/MC_C11.cfg).
spec -> code: every case of the bounded universe, run to its end by TLC (MC_C11_cases.cfg),
is replayed on real objects in every spelling of the destination (dotted string, Path,
Path mixing T steps, T[..]/T.attr, S-rooted), on plain builtins and on write-logging /
faulting containers: outcome, returned object identity, documented error class, final
heap (pre-existing cells and factory-made ones), factory calls, write log.
code -> spec: random object graphs (sharing, cycles), longer paths, random values /
factories / faults run on the logging containers; TLC (spec/Trace_C11.tla) steps the machine
through each recorded write log and evaluates the law on the recorded heap and log.
"""
import json
import random

import c11_lib as lib
import vlib

PROP = 'C11'
KIND = 'assign'
MC = 'MC_C11'
TRACE = 'Trace_C11'

_ALL = '{"dict","idict","list","tuple","obj"}'
TIERS = {
    'quick': dict(Mutant='"none"', MaxSpine='1', LevelClasses='{"dict","list","tuple","obj"}',
                  LeafOpts='{"none","str","edict"}', SideOpts='{"shared"}', Alpha='"small"', Alpha3='"p"',
                  Profiles='{"plain","vals","miss","missval","missflag","edge","falsyval"}', Reuse='FALSE'),
    'thorough': dict(Mutant='"none"', MaxSpine='2', LevelClasses='{"dict","list","tuple","obj"}',
                     LeafOpts='{"none","edict","fset"}',
                     SideOpts='{"shared"}', Alpha='"small"', Alpha3='"p"',
                     Profiles='{"plain","vals","miss","missval","missflag","edge","falsyval"}', Reuse='FALSE'),
}
# wildcard destinations: '*' among the parent segments, broadcast in order, partial on error
STAR = {
    'quick': dict(Mutant='"none"', MaxSpine='2', LevelClasses='{"dict","list"}', LeafOpts='{"none","edict"}',
                  SideOpts='{"none","mixobj"}', Alpha='"small"', Alpha3='"none"', Profiles='{"star"}', Reuse='FALSE'),
    'thorough': dict(Mutant='"none"', MaxSpine='2', LevelClasses='{"dict","list","tuple","obj"}',
                     LeafOpts='{"none","edict"}', SideOpts='{"none","mixobj","mixdict","mixlist"}', Alpha='"small"',
                     Alpha3='"none"', Profiles='{"star"}', Reuse='FALSE'),
}
# '**' destinations, and a wildcard after a segment that is absent (missing=: containers up to the wildcard)
DEEP = {
    'quick': dict(Mutant='"none"', MaxSpine='2', LevelClasses='{"dict","list"}', LeafOpts='{"none","edict"}',
                  SideOpts='{"shared"}', Alpha='"tiny"', Alpha3='"none"', Profiles='{"starmiss","dstar"}', Reuse='FALSE'),
    'thorough': dict(Mutant='"none"', MaxSpine='2', LevelClasses='{"dict","list","obj"}', LeafOpts='{"none","edict"}',
                     SideOpts='{"shared","twin"}', Alpha='"small"', Alpha3='"none"', Profiles='{"starmiss","dstar"}',
                     Reuse='FALSE'),
}
# ONE Assign spec object evaluated on two targets in sequence and through a list spec: every ordered
# pair of targets, so the prefix stops existing at segment i on the first and at segment j on the second
REUSE = {
    'quick': dict(Mutant='"none"', MaxSpine='2', LevelClasses='{"dict"}', LeafOpts='{"none","edict"}',
                  SideOpts='{"shared"}', Alpha='"tiny"', Alpha3='"p"', Profiles='{"reuse"}', Reuse='TRUE'),
    'thorough': dict(Mutant='"none"', MaxSpine='2', LevelClasses='{"dict","obj"}', LeafOpts='{"none","edict"}',
                     SideOpts='{"shared"}', Alpha='"tiny"', Alpha3='"p"', Profiles='{"reuse"}', Reuse='TRUE'),
}
# literal container values (argument mode rebuilds them): self-referential and aliased lists / dicts, T leaves
LITVAL = {
    'quick': dict(Mutant='"none"', MaxSpine='1', LevelClasses='{"dict","list"}', LeafOpts='{"none","edict"}',
                  SideOpts='{"shared"}', Alpha='"tiny"', Alpha3='"p"', Profiles='{"litval"}', Reuse='FALSE'),
    'thorough': dict(Mutant='"none"', MaxSpine='2', LevelClasses='{"dict","list","tuple","obj"}',
                     LeafOpts='{"none","edict"}', SideOpts='{"shared"}', Alpha='"tiny"', Alpha3='"p"',
                     Profiles='{"litval"}', Reuse='FALSE'),
}
# second, deeper-alphabet universe of the thorough tier (shallower targets)
THOROUGH_WIDE = dict(Mutant='"none"', MaxSpine='1', LevelClasses=_ALL,
                     LeafOpts='{"str","elist"}',
                     SideOpts='{"absent","shared","empty"}', Alpha='"full"', Alpha3='"p"',
                     Profiles='{"plain","vals","miss","missval","missflag","edge","falsyval"}', Reuse='FALSE')
MUTANT_UNIVERSE = dict(MaxSpine='1', LevelClasses='{"dict","list","obj"}', LeafOpts='{"none","edict"}',
                       SideOpts='{"absent","shared"}', Alpha='"small"', Alpha3='"p"',
                       Profiles='{"plain","miss","missval","missflag"}', Reuse='FALSE')
COVERAGE_UNIVERSE = dict(MaxSpine='1', LevelClasses='{"dict"}', LeafOpts='{"edict"}', SideOpts='{"absent"}',
                         Alpha='"small"', Alpha3='"p"', Profiles='{"miss"}', Reuse='FALSE')
MUTANTS = {'attach_first': ('NoEarlyWrite', 'AttachLast', 'Outcome'),
           'factory_per_segment': ('FactoryLaw',),
           'replace_existing': ('Outcome', 'NeverReplaced', 'ReadBack'),
           # historic behaviours of glom (repaired: c7a278c, 39e101a); the law must reject them
           'tail_copies_value': ('Outcome', 'ReadBack'),
           'tail_value_lost': ('Outcome', 'ReadBack'),
           # a list reached twice inside a literal value rebuilt as [] the second time
           'alias_lost': dict(universe=None, laws=('Outcome', 'ReadBack')),
           # containers created for missing segments filled through another registry's handlers
           'tail_default_registry': ('ExecRegistryOnly',),
           # state kept on the spec object between evaluations
           'memo_split': dict(universe=None, laws=('SpecCarriesNothing', 'Outcome', 'NeverReplaced', 'FactoryLaw'))}
NRANDOM = {'quick': 6000, 'thorough': 60000}

ASSUMPTIONS = [
    'container classes dict / list / tuple / frozenset / set / attribute objects; OrderedDict is excluded '
    '(its instances accept arbitrary attributes, which the abstract heap does not model)',
    'values are scalars, Spec(path), T paths, the target itself, or literal graphs of exact dicts / lists with '
    'aliasing, cycles and T leaves (argument mode stores a rebuilt container of the same type and shape; literal '
    'tuples / sets, whose aliasing is not preserved, are excluded)',
    'the read-only property "r" is only addressed as the final segment; attribute names are not methods of builtins',
    'faults are injected with subclasses (raising __setitem__/__setattr__/__delitem__/__delattr__, read-only '
    'property, raising factory); at most one faulty cell per case',
    'the class of the escaping error is only compared where the documentation names it (PathAccessError for a '
    'missing parent without missing=); other classes are recorded as drift against the mechanism model',
    'spec-object reuse: one Assign(path, literal, missing=dict|obj) object on every ordered pair of targets of a '
    'small family (two glom calls; one call over a list of the two targets when both are expected to succeed), and '
    'random pairs in the recorded direction; assign() itself builds a fresh spec per call',
    'registries: the logging classes are registered (documented built-in behaviour, handlers tagged with their '
    'registry) on the default registry and on one Glommer; cases with missing= are also run through the Glommer; '
    'on plain builtins the default registrations of glom itself are exercised',
    'short-lived classes: every 12th case is also run on target classes made with type() right after classes of '
    'other kinds were created, used through string segments, deleted and garbage-collected',
    'wildcards * and ** among the parent segments; a failing match ends the broadcast with the earlier matches '
    'assigned (no atomicity is claimed for wildcard paths); with missing=, segments absent before the first wildcard '
    'are created and the wildcard ranges over the last new container; sets are only enumerated when their order '
    'is determined (small ints)',
    'realisation variants: every logging-mode case is replayed once more in one of (rotating) falsy containers / '
    'objects with pass-through __getitem__ / __iter__ / __len__ overrides, hostile __eq__ (always True; raising), '
    'reordered OrderedDicts (cases without attribute steps: an OrderedDict accepts attributes), namedtuples, classes '
    'made with type() after others were collected, and the spec object evaluated twice with the first target and '
    'everything made for it mutated in between; a slotted object (flag "slots") only on wildcard-free paths; numeric '
    'keys that are equal across types (1 / 1.0 / True) are not modelled (abstract keys are compared structurally)',
    'TLC, the Json community module and the codec are trusted',
]


def match_finding(f, info):
    """No known finding is open for C11 (the three historic defects are repaired in glom and live on
    as spec mutants tail_copies_value / tail_value_lost): every disagreement is a VIOLATION."""
    return False


MUTANTS['memo_split']['universe'] = {k: v for k, v in REUSE['quick'].items() if k != 'Mutant'}
MUTANTS['alias_lost']['universe'] = {k: v for k, v in LITVAL['quick'].items() if k != 'Mutant'}
DRIVER = lib.Driver(PROP, KIND, MC, TRACE,
                    need=['Choose', 'A_EvalVal', 'A_FetchParent', 'A_FactoryCall', 'A_BuildTail', 'A_Store'],
                    match=match_finding, match_rows=match_finding,
                    mutants=MUTANTS, mutant_universe=MUTANT_UNIVERSE, coverage_universe=COVERAGE_UNIVERSE)

RULE = ('TLC enumerates every (target spine, destination path, value, missing factory, fault plan) within the '
        'constants and explores every step of the machine; each terminal case is replayed in every spelling on '
        'plain and on write-logging containers; non-trivial = a write is attempted or the call succeeds; '
        'distinct by TLC state fingerprint')


def main(tier, seed):
    universes = [(tier, TIERS[tier]), (tier + '-star', STAR[tier], tier == 'thorough'),
                 (tier + '-reuse', REUSE[tier], tier == 'thorough'),
                 (tier + '-litval', LITVAL[tier], tier == 'thorough'),
                 (tier + '-deep', DEEP[tier], tier == 'thorough')]
    if tier == 'thorough':
        universes.append(('thorough-wide', THOROUGH_WIDE))
    return DRIVER.main(tier, seed, universes, NRANDOM[tier], ASSUMPTIONS, RULE)


def replay(path):
    return DRIVER.replay(path)
