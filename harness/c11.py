"""C11  assign obeys the lens laws and fails atomically.

Specification: spec/GlomMutate.tla (machine EvalVal -> FetchParent.. -> [FactoryCall ->
FetchParent..]+ -> BuildTail+ -> Store with the heap as a variable, faults as environment
choices; law RefAssign + state laws NoEarlyWrite / AttachLast / FactoryLaw / NeverReplaced /
ReadBack checked by TLC in every intermediate state, spec/MC_C11.cfg).
spec -> code: every case of the bounded universe, run to its end by TLC (MC_C11_cases.cfg),
is replayed on real objects in every spelling of the destination (dotted string, Path,
Path mixing T steps, T[..]/T.attr, S-rooted), on plain builtins and on write-logging /
faulting containers: outcome, returned object identity, documented error class, final
heap (pre-existing cells and factory-made ones), factory calls, write log.
code -> spec: random object graphs (sharing, cycles), longer paths, random values /
factories / faults run on the logging containers; TLC (spec/Trace_C11.tla) steps the machine
through each recorded write log and evaluates the law on the recorded heap and log.
"""
import json
import random

import c11_lib as lib
import vlib

PROP = 'C11'
KIND = 'assign'
MC = 'MC_C11'
TRACE = 'Trace_C11'

_ALL = '{"dict","idict","list","tuple","obj"}'
TIERS = {
    'quick': dict(Mutant='"none"', MaxSpine='1', LevelClasses=_ALL, LeafOpts='{"str","edict"}',
                  SideOpts='{"absent","shared"}', Alpha='"small"', Alpha3='"p"',
                  Profiles='{"plain","vals","miss","missval","missflag"}'),
    'thorough': dict(Mutant='"none"', MaxSpine='2', LevelClasses=_ALL,
                     LeafOpts='{"none","int","str","edict","elist","fset"}',
                     SideOpts='{"absent","shared","empty"}', Alpha='"small"', Alpha3='"p"',
                     Profiles='{"plain","vals","miss","missval","missflag"}'),
}
# second, deeper-alphabet universe of the thorough tier (shallower targets)
THOROUGH_WIDE = dict(Mutant='"none"', MaxSpine='1', LevelClasses=_ALL,
                     LeafOpts='{"none","str","edict","elist","fset"}',
                     SideOpts='{"absent","none","shared","empty"}', Alpha='"full"', Alpha3='"small"',
                     Profiles='{"plain","vals","miss","missval","missflag"}')
MUTANT_UNIVERSE = dict(MaxSpine='1', LevelClasses='{"dict","list","obj"}', LeafOpts='{"none","edict"}',
                       SideOpts='{"absent","shared"}', Alpha='"small"', Alpha3='"p"',
                       Profiles='{"plain","miss","missflag"}')
MUTANTS = {'attach_first': ('NoEarlyWrite', 'AttachLast', 'Outcome'),
           'factory_per_segment': ('FactoryLaw',),
           'replace_existing': ('Outcome', 'NeverReplaced', 'ReadBack')}
NRANDOM = {'quick': 6000, 'thorough': 120000}

ASSUMPTIONS = [
    'container classes dict / list / tuple / frozenset / set / attribute objects; OrderedDict is excluded '
    '(its instances accept arbitrary attributes, which the abstract heap does not model)',
    'values are scalars, Spec(path), T paths or the target itself; literal dict/list/tuple values are excluded '
    '(argument mode rebuilds them by design, see test_assign_recursive)',
    'the read-only property "r" is only addressed as the final segment; attribute names are not methods of builtins',
    'faults are injected with subclasses (raising __setitem__/__setattr__/__delitem__/__delattr__, read-only '
    'property, raising factory); at most one faulty cell per case',
    'the class of the escaping error is only compared where the documentation names it (PathAccessError for a '
    'missing parent without missing=); other classes are recorded as drift against the mechanism model',
    'wildcard destinations (* / **) are not in this universe (their enumeration is C14\'s subject)',
    'TLC, the Json community module and the codec are trusted',
]


def _val_is_container(case):
    vs = case['val']
    if vs['k'] == 'lit':
        return False
    return True


def _diff_positions(exp_heap, obs_heap):
    """(cell, item index, expected, observed) of every differing entry; None if shapes differ."""
    if len(exp_heap) != len(obs_heap):
        return None
    out = []
    for a, (e, o) in enumerate(zip(exp_heap, obs_heap), 1):
        if e['cls'] != o['cls'] or len(e['items']) != len(o['items']):
            return None
        for i, (x, y) in enumerate(zip(e['items'], o['items'])):
            if x != y:
                out.append((a, i, x, y))
    return out


def match_finding(f, info):
    """Known findings of C11 (narrow: call site + input predicate + the exact deviation)."""
    m = f.get('match', {})
    case, exp, obs = info.get('case'), info.get('exp'), info.get('obs')
    if not case or case.get('kind') != 'assign' or not obs:
        return False
    if m.get('kind') == 'missing-copies-value':
        # Assign.glomit re-evaluates the already evaluated value with arg_val() in the nested
        # Assign of the missing= branch: a dict / list / tuple obtained through Spec / T is rebuilt
        if not (case['missing'] != 'none' and case['val']['k'] in ('spec', 't') and not info.get('logging', True)
                and info.get('clause') == 'heap-effect' and exp['ok'] and obs['ok'] and obs.get('nfac', 0) >= 1):
            return False
        diffs = _diff_positions(exp['heap'], obs['heap'])
        if not diffs:
            return False
        for a, i, x, y in diffs:
            xv = x[1] if isinstance(x, list) else x
            yv = y[1] if isinstance(y, list) else y
            if isinstance(x, list) and x[0] != y[0]:
                return False
            if not (xv.get('k') == 'ref' and yv.get('k') == 'opaque' and yv.get('s') in ('dict', 'list', 'tuple')
                    and exp['heap'][xv['a'] - 1]['cls'] == yv['s']):
                return False
        return True
    if m.get('kind') == 'sroot-missing-loses-value':
        # an S-rooted destination with missing=: the remaining path keeps the S root, so the nested
        # Assign writes into the scope instead of the new container
        return (info.get('spelling', '').startswith('S-') and case['missing'] != 'none' and exp['ok']
                and obs.get('nfac', 0) >= 1 and info.get('clause') in m.get('clauses', ['heap-effect']))
    return False


def run_universe(check, consts, label):
    res = vlib.run_tlc(MC, cfg=MC, constants=consts, coverage=(label == 'quick'))
    vlib.tlc_must_pass(res, '%s machine %s' % (MC, label))
    check.add_tlc(res, '%s machine [%s]' % (MC, label))
    if label == 'quick':
        need = ['A_EvalVal', 'A_FetchParent', 'A_FactoryCall', 'A_BuildTail', 'A_Store']
        missing = [a for a in need if not res['coverage'].get(a)]
        if missing:
            raise vlib.MachineryError('actions never taken: %s (coverage %s)' % (missing, res['coverage']))
    res2, results = vlib.map_states(MC, lib.worker, cfg=MC + '_cases', constants=consts)
    check.add_tlc(res2, '%s cases [%s]' % (MC, label))
    log_rows = []
    drift = 0
    for r in results:
        check.cov['evaluations'] += r['n']
        check.cov['distinct_nontrivial'] += r['nontrivial']
        badcases = {json.dumps(b['case']['case'], sort_keys=True) for b in r['bad']}
        check.validated(r['cases'] - len(badcases))
        for s in r['samples']:
            check.sample(s)
        for b in r['bad']:
            check.violation(b['case'], b['why'], matcher=match_finding)
        drift += r['drift_cls']
        for d in r['drift_samples']:
            check.extra.setdefault('drift_class_samples', [])
            if len(check.extra['drift_class_samples']) < 5:
                check.extra['drift_class_samples'].append(d)
        log_rows += r['log_rows']
    check.extra['drift_error_class'] = check.extra.get('drift_error_class', 0) + drift
    return log_rows


def validate(check, rows, label):
    """Rows through the Trace module; law clauses are violations, drift- clauses are counted."""
    if not rows:
        return
    slim = [dict(case=r['case'], obs=r['obs']) for r in rows]
    rejects = vlib.validate_rows(check, TRACE, slim, label, chunk=4000)
    for (row, rej) in rejects:
        if rej['clause'].startswith('drift-'):
            check.extra['drift_' + label] = check.extra.get('drift_' + label, 0) + 1
            check.validated(1)
            if len(check.extra.setdefault('drift_samples', [])) < 3:
                check.extra['drift_samples'].append(dict(clause=rej['clause'], steps=row['case']['steps'],
                                                         log=row['obs']['log']))
            continue
        full = next((r for r in rows if r['case'] is row['case']), None) or row
        info = dict(case=row['case'], obs=row['obs'], exp=None, spelling=full.get('spelling', ''), logging=True,
                    clause=rej['clause'], direction='code->spec')
        check.violation(info, 'recorded execution rejected by the specification: clause %s' % rej['clause'],
                        matcher=match_finding_rows)


def match_finding_rows(f, info):
    # findings about S-rooted destinations can also show up in recorded rows
    m = f.get('match', {})
    case, obs = info['case'], info['obs']
    if m.get('kind') == 'sroot-missing-loses-value':
        return (info.get('spelling', '').startswith('S-') and case['missing'] != 'none'
                and obs.get('nfac', 0) >= 1 and info['clause'] in m.get('clauses', ['heap-effect']))
    return False


def run_mutants(check):
    got = {}
    for name, laws in MUTANTS.items():
        consts = dict(MUTANT_UNIVERSE, Mutant='"%s"' % name)
        res = vlib.run_tlc(MC, cfg=MC, constants=consts)
        got[name] = res['violated']
        if res['violated'] not in laws:
            raise vlib.MachineryError('spec mutant %s: expected one of %s violated, TLC says %r'
                                      % (name, laws, res['violated']))
    check.extra['spec_mutants_violate'] = got


def main(tier, seed):
    check = vlib.Check(PROP, tier, seed)
    consts = TIERS[tier]
    log_rows = run_universe(check, consts, tier)
    universes = [consts]
    if tier == 'thorough':
        log_rows += run_universe(check, THOROUGH_WIDE, 'thorough-wide')
        universes.append(THOROUGH_WIDE)
        run_mutants(check)
    check.extra['replays_with_other_write_log'] = len(log_rows)
    validate(check, log_rows[:20000], 'replay-logs')
    rng = random.Random(seed * 7919 + 11)
    rows = lib.record_rows(rng, NRANDOM[tier], KIND)
    check.extra['recorded_rows'] = len(rows)
    check.cov['evaluations'] += len(rows)
    for r in rows[:2]:
        check.sample(dict(kind='recorded', case=r['case'], obs=r['obs'], spelling=r['spelling']), limit=6)
    validate(check, rows, 'random')
    check.extra['constants'] = universes
    check.assumptions += ASSUMPTIONS
    return check.finish(
        rule='TLC enumerates every (target spine, destination path, value, missing factory, fault plan) within the '
             'constants and explores every step of the machine; each terminal case is replayed in every spelling on '
             'plain and on write-logging containers; non-trivial = a write is attempted or the call succeeds; '
             'distinct by TLC state fingerprint',
        exhaustive=True)


def replay(path):
    with open(path) as f:
        v = json.load(f)
    info = v['case']
    case = info['case']
    print('case:', json.dumps({k: case[k] for k in ('kind', 'root', 'steps', 'val', 'missing', 'facfail', 'ignore', 'flags')}))
    print('heap0:', json.dumps(case['heap0']))
    bad = 0
    for logging in ((info.get('logging', True),)):
        for sp in lib.spellings(case['steps']):
            if info.get('spelling') and sp[0] != info['spelling']:
                continue
            obs = lib.run_case(case, sp, logging)
            print('spelling=%s logging=%s observed: ok=%s cls=%s v=%s nfac=%s' % (sp[0], logging, obs['ok'], obs['cls'], obs['v'], obs['nfac']))
            print('  heap:', json.dumps(obs['heap']))
            print('  log :', json.dumps(obs['log']))
            if info.get('exp'):
                clause = lib.conform_clause(case, info['exp'], obs)
                print('  expected: %s' % json.dumps({k: info['exp'][k] for k in ('ok', 'err', 'lenient', 'v')}))
                print('  clause: %r' % clause)
                bad += bool(clause)
            else:
                check = vlib.Check(PROP, 'replay', 0)
                rej = vlib.validate_rows(check, TRACE, [dict(case=case, obs=obs)], 'replay')
                real = [r for r in rej if not r[1]['clause'].startswith('drift-')]
                print('  specification verdict: %s' % ([r[1]['clause'] for r in rej] or 'accepted'))
                bad += bool(real)
    return 1 if bad else 0
