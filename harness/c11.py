"""C11  assign obeys the lens laws and fails atomically.

Specification: spec/GlomMutate.tla (machine EvalVal -> FetchParent.. -> [FactoryCall ->
FetchParent..]+ -> BuildTail+ -> Store with the heap as a variable, faults as environment
choices; law RefAssign + state laws NoEarlyWrite / AttachLast / FactoryLaw / NeverReplaced /
ReadBack checked by TLC in every intermediate state, spec/MC_C11.cfg).
spec -> code: every case of the bounded universe, run to its end by TLC (MC_C11_cases.cfg),
is replayed on real objects in every spelling of the destination (dotted string, Path,
Path mixing T steps, T[..]/T.attr, S-rooted), on plain builtins and on write-logging /
faulting containers: outcome, returned object identity, documented error class, final
heap (pre-existing cells and factory-made ones), factory calls, write log.
code -> spec: random object graphs (sharing, cycles), longer paths, random values /
factories / faults run on the logging containers; TLC (spec/Trace_C11.tla) steps the machine
through each recorded write log and evaluates the law on the recorded heap and log.
"""
import json
import random

import c11_lib as lib
import vlib

PROP = 'C11'
KIND = 'assign'
MC = 'MC_C11'
TRACE = 'Trace_C11'

_ALL = '{"dict","idict","list","tuple","obj"}'
TIERS = {
    'quick': dict(Mutant='"none"', MaxSpine='1', LevelClasses='{"dict","list","tuple","obj"}',
                  LeafOpts='{"none","str","edict"}', SideOpts='{"shared"}', Alpha='"small"', Alpha3='"p"',
                  Profiles='{"plain","vals","miss","missval","missflag"}'),
    'thorough': dict(Mutant='"none"', MaxSpine='2', LevelClasses='{"dict","list","tuple","obj"}',
                     LeafOpts='{"none","edict","fset"}',
                     SideOpts='{"shared"}', Alpha='"small"', Alpha3='"p"',
                     Profiles='{"plain","vals","miss","missval","missflag"}'),
}
# wildcard destinations: '*' among the parent segments, broadcast in order, partial on error
STAR = {
    'quick': dict(Mutant='"none"', MaxSpine='2', LevelClasses='{"dict","list"}', LeafOpts='{"none","edict"}',
                  SideOpts='{"none"}', Alpha='"small"', Alpha3='"none"', Profiles='{"star"}'),
    'thorough': dict(Mutant='"none"', MaxSpine='2', LevelClasses='{"dict","list","tuple","obj"}',
                     LeafOpts='{"none","str","edict"}', SideOpts='{"none"}', Alpha='"small"', Alpha3='"none"',
                     Profiles='{"star"}'),
}
# second, deeper-alphabet universe of the thorough tier (shallower targets)
THOROUGH_WIDE = dict(Mutant='"none"', MaxSpine='1', LevelClasses=_ALL,
                     LeafOpts='{"str","elist"}',
                     SideOpts='{"absent","shared","empty"}', Alpha='"full"', Alpha3='"p"',
                     Profiles='{"plain","vals","miss","missval","missflag"}')
MUTANT_UNIVERSE = dict(MaxSpine='1', LevelClasses='{"dict","list","obj"}', LeafOpts='{"none","edict"}',
                       SideOpts='{"absent","shared"}', Alpha='"small"', Alpha3='"p"',
                       Profiles='{"plain","miss","missflag"}')
COVERAGE_UNIVERSE = dict(MaxSpine='1', LevelClasses='{"dict"}', LeafOpts='{"edict"}', SideOpts='{"absent"}',
                         Alpha='"small"', Alpha3='"p"', Profiles='{"miss"}')
MUTANTS = {'attach_first': ('NoEarlyWrite', 'AttachLast', 'Outcome'),
           'factory_per_segment': ('FactoryLaw',),
           'replace_existing': ('Outcome', 'NeverReplaced', 'ReadBack')}
NRANDOM = {'quick': 6000, 'thorough': 60000}

ASSUMPTIONS = [
    'container classes dict / list / tuple / frozenset / set / attribute objects; OrderedDict is excluded '
    '(its instances accept arbitrary attributes, which the abstract heap does not model)',
    'values are scalars, Spec(path), T paths or the target itself; literal dict/list/tuple values are excluded '
    '(argument mode rebuilds them by design, see test_assign_recursive)',
    'the read-only property "r" is only addressed as the final segment; attribute names are not methods of builtins',
    'faults are injected with subclasses (raising __setitem__/__setattr__/__delitem__/__delattr__, read-only '
    'property, raising factory); at most one faulty cell per case',
    'the class of the escaping error is only compared where the documentation names it (PathAccessError for a '
    'missing parent without missing=); other classes are recorded as drift against the mechanism model',
    'wildcards: only * (not **), only among the parent segments and without missing=; a failing match ends the '
    'broadcast with the earlier matches assigned (no atomicity is claimed for wildcard paths); sets are never '
    'enumerated by a wildcard (iteration order)',
    'TLC, the Json community module and the codec are trusted',
]


def _val_is_container(case):
    vs = case['val']
    if vs['k'] == 'lit':
        return False
    return True


def _diff_positions(exp_heap, obs_heap):
    """(cell, item index, expected, observed) of every differing entry; None if shapes differ."""
    if len(exp_heap) != len(obs_heap):
        return None
    out = []
    for a, (e, o) in enumerate(zip(exp_heap, obs_heap), 1):
        if e['cls'] != o['cls'] or len(e['items']) != len(o['items']):
            return None
        for i, (x, y) in enumerate(zip(e['items'], o['items'])):
            if x != y:
                out.append((a, i, x, y))
    return out


def _copied_value(info):
    case, exp, obs = info['case'], info.get('exp'), info['obs']
    rebuilt = ('set', 'frozenset') if info.get('logging', True) else ('dict', 'list', 'tuple', 'set', 'frozenset')
    if not (case['missing'] != 'none' and case['val']['k'] in ('spec', 't') and info.get('clause') == 'heap-effect'
            and obs['ok'] and obs.get('nfac', 0) >= 1):
        return False
    # the value the spec denotes (abstract walk over the recorded heap)
    v = case['root']
    for st in case['val']['steps']:
        v = lib.abstract_step(case['heap0'], v, st)
        if v is None:
            return False
    if v['k'] != 'ref' or case['heap0'][v['a'] - 1]['cls'] not in rebuilt:
        return False
    vcls = case['heap0'][v['a'] - 1]['cls']
    if exp is not None:
        diffs = _diff_positions(exp['heap'], obs['heap'])
        if not diffs:
            return False
        for a, i, x, y in diffs:
            xv = x[1] if isinstance(x, list) else x
            yv = y[1] if isinstance(y, list) else y
            if isinstance(x, list) and x[0] != y[0]:
                return False
            if not (xv == v and yv.get('k') == 'opaque' and yv.get('s') == vcls):
                return False
        return True
    # recorded row (no expectation at hand): exactly one unknown object of the value's class is stored,
    # and nothing refers to the value where the unknown object sits
    unknown = [it for c in obs['heap'] for it in c['items']
               for x in ([it[1]] if isinstance(it, list) and len(it) == 2 and isinstance(it[0], dict) and c['cls'] in ('dict', 'obj') else [it])
               if isinstance(x, dict) and x.get('k') == 'opaque']
    return len(unknown) == 1 and all((u[1] if isinstance(u, list) else u).get('s') == vcls for u in unknown)


def match_finding(f, info):
    """Known findings of C11 (narrow: call site + input predicate + the exact deviation)."""
    m = f.get('match', {})
    case, exp, obs = info.get('case'), info.get('exp'), info.get('obs')
    if not case or case.get('kind') != 'assign' or not obs:
        return False
    if m.get('kind') == 'missing-copies-value':
        # Assign.glomit re-evaluates the already evaluated value with arg_val() in the nested
        # Assign of the missing= branch: a value of exact type dict / list / tuple / set / frozenset
        # obtained through Spec / T is rebuilt (the logging classes are subclasses, except sets)
        return _copied_value(info)
    if m.get('kind') == 'sroot-missing-loses-value':
        # an S-rooted destination with missing=: the remaining path keeps the S root, so the nested
        # Assign writes into the scope instead of the new container
        return (info.get('spelling', '').startswith('S-') and case['missing'] != 'none'
                and obs.get('nfac', 0) >= 1 and info.get('clause') in m.get('clauses', ['heap-effect']))
    return False


def match_finding_rows(f, info):
    # findings about S-rooted destinations can also show up in recorded rows
    m = f.get('match', {})
    case, obs = info['case'], info['obs']
    if m.get('kind') == 'missing-copies-value':
        return _copied_value(info)
    if m.get('kind') == 'sroot-missing-loses-value':
        return (info.get('spelling', '').startswith('S-') and case['missing'] != 'none'
                and obs.get('nfac', 0) >= 1 and info['clause'] in m.get('clauses', ['heap-effect']))
    return False


DRIVER = lib.Driver(PROP, KIND, MC, TRACE,
                    need=['Choose', 'A_EvalVal', 'A_FetchParent', 'A_FactoryCall', 'A_BuildTail', 'A_Store'],
                    match=match_finding, match_rows=match_finding_rows,
                    mutants=MUTANTS, mutant_universe=MUTANT_UNIVERSE, coverage_universe=COVERAGE_UNIVERSE)

RULE = ('TLC enumerates every (target spine, destination path, value, missing factory, fault plan) within the '
        'constants and explores every step of the machine; each terminal case is replayed in every spelling on '
        'plain and on write-logging containers; non-trivial = a write is attempted or the call succeeds; '
        'distinct by TLC state fingerprint')


def main(tier, seed):
    universes = [(tier, TIERS[tier]), (tier + '-star', STAR[tier], tier == 'thorough')]
    if tier == 'thorough':
        universes.append(('thorough-wide', THOROUGH_WIDE))
    return DRIVER.main(tier, seed, universes, NRANDOM[tier], ASSUMPTIONS, RULE)


def replay(path):
    return DRIVER.replay(path)
