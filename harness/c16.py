"""C16  Group builds exactly the buckets and aggregates of a hand-written loop.

spec -> code: TLC explores the machine of spec/GlomGroup.tla (NewEvaluation / Feed(item) /
Finish on ONE Group spec object) for every spec chain and item sequence within the bounds
of spec/MC_C16.tla and dumps every reachable state.  A state carries the action history,
and per evaluation the value the law predicts (RefGroup, the hand-written loop) and the value
the transcribed ACC_TREE mechanism computes.  Every state is replayed into the real library:
prefix k of an item sequence = one glom() call on the one real spec object (re-used across
all calls of a process, in two spellings, on list / tuple / generator targets, nested in
[g] and Group([g])), nested / consecutive evaluations are driven through generator targets
that start the inner glom() call between two items of the outer one.  Inputs are
snapshotted, results of different calls must share no container and must not change later.
code -> spec: seeded random specs with longer item sequences and random nesting histories are
run through the real library; TLC (spec/Trace_C16.tla) steps the same machine through the
recorded events and judges the recorded results.
"""
import collections
import json
import random
from fractions import Fraction

import glom
from glom import T, SKIP, STOP, Val, Auto
from glom.grouping import Group, First, Avg, Max, Min, Limit, Sample
from glom.reduction import Sum, Count, Flatten, Merge

import codec
import vlib
import c16_dump

PROP = 'C16'
# candidate repairs of the two recorded findings (proposed_fixes/C16-*.diff), selectable in the
# transcribed mechanism through the constant Fixes.  When one is applied to glom, move it from the
# Fixes switch into the mechanism proper of GlomGroup.tla and keep the old behaviour as a Mutant,
# as was done for the bucket-key collision (glom fd673fd) and the Limit base case (glom b769243):
# every configuration, MC and Trace (whose cfg says Fixes = {}), then runs the code as it is.
ALL_FIXES = ('stop', 'skiptrace')
# historic mechanisms kept as spec mutants: (Mutant value, universe name) - must violate LawRefGroup
HISTORIC = (('rawbucket', 'SMALL_IDS'), ('nobase', 'SMALL'))


Pair = collections.namedtuple('Pair', 'n w')       # a tuple subclass whose constructor takes no iterable


class SourceError(Exception):
    """raised by a lazy target instead of yielding its next item"""


class _Routable:
    """an item that key functions can route (t % 2, t // 2) but whose == is hostile"""
    def __init__(self, i):
        self.i = i

    def __mod__(self, m):
        return self.i % m

    def __floordiv__(self, m):
        return self.i // m

    __hash__ = object.__hash__


class AnyEq(_Routable):
    """equal to everything (like unittest.mock.ANY)"""
    def __eq__(self, other):
        return True

    def __ne__(self, other):
        return False

    __hash__ = object.__hash__


class StrictEq(_Routable):
    """comparing it with a foreign object raises"""
    def __eq__(self, other):
        if type(other) is not StrictEq:
            raise TypeError('StrictEq compared with %s' % type(other).__name__)
        return self.i == other.i

    __hash__ = object.__hash__


# ---- abstract spec -> real spec ----------------------------------------------------------
def _key_fn(kf, spelling, ub):
    """ub: None, or (unbox T-expression, unbox callable) when items are boxed;
    spelling 0 = T-expressions / builtins, 1 = lambdas, 2 = spelling 0 wrapped in Auto(...)"""
    if spelling == 2:
        return Auto(_key_fn(kf, 0, ub))
    if ub is None:
        if spelling == 0 and kf == 'len':
            return len
        if spelling == 0 and kf == 'first':
            return T[0]
        if kf in ('len', 'first'):
            return {'len': lambda t: len(t), 'first': lambda t: t[0]}[kf]
        if spelling == 0:
            if kf == 'ident':
                return T
            if kf == 'mod2':
                return T % 2
            if kf == 'const':
                return Val(7)
        return {'ident': lambda t: t, 'mod2': lambda t: t % 2, 'half': lambda t: t // 2,
                'const': lambda t: 7, 'skip0': lambda t: SKIP if t == 0 else t % 2,
                'skipodd': lambda t: SKIP if t % 2 else t}[kf]
    ut, uf = ub
    if spelling == 0:
        if kf == 'ident':
            return ut
        if kf == 'mod2':
            return ut % 2
    return {'ident': lambda b: uf(b), 'mod2': lambda b: uf(b) % 2, 'half': lambda b: uf(b) // 2,
            'const': lambda b: 7, 'skip0': lambda b: SKIP if uf(b) == 0 else uf(b) % 2,
            'skipodd': lambda b: SKIP if uf(b) % 2 else uf(b)}[kf]


def _val_fn(vf, spelling):
    if spelling in (0, 2):
        if vf == 'ident':
            return T
        if vf == 'inc':
            return T + 1
        if vf == 'x10':
            return T * 10
    return {'ident': lambda t: t, 'inc': lambda t: t + 1, 'x10': lambda t: t * 10,
            'skip3': lambda t: SKIP if t % 4 == 3 else t}[vf]


INNER = ('gsum', 'gcount', 'gbsum')       # the aggregator's sub-spec is itself a Group


def is_inner(levels):
    return levels[-1]['op'] == 'agg' and levels[-1]['val'] in INNER


def box_kind(levels):
    """how items can be boxed: 'Flatten' = the list [t, t + 10], 'Merge' = the dict {t % 2: t, 'v': t}"""
    leaf = levels[-1]
    if is_inner(levels):
        return 'Flatten'                  # items must be lists: the inner Group iterates them
    if leaf['op'] == 'agg' and leaf['agg'] in ('Flatten', 'Merge'):
        return leaf['agg']
    return None


def build_group(levels, spelling, boxed=False):
    """-> (Group object, objs) ; objs[l-1] = the real object of spec node l (1-based levels),
    keyobjs[l-1] = the key-spec object of dict level l"""
    leaf = levels[-1]
    ub = None
    if boxed:
        ub = (T[0], lambda b: b[0]) if box_kind(levels) == 'Flatten' else (T['v'], lambda b: b['v'])
    if leaf['op'] == 'list':
        cur = [_val_fn(leaf['val'], spelling)]
    elif leaf['op'] == 'list2':
        cur = [_val_fn(leaf['val'], spelling), _val_fn('x10', spelling)]
    elif leaf['op'] == 'last':
        cur = _val_fn(leaf['val'], spelling)
    else:
        a = leaf['agg']
        if a in ('First', 'Max', 'Min', 'Avg', 'Count'):
            cur = {'First': First, 'Max': Max, 'Min': Min, 'Avg': Avg, 'Count': Count}[a]()
        elif a == 'Sample':
            cur = Sample(leaf['n'])
        elif leaf['val'] == 'gsum':
            cur = Sum(Group(Sum()))
        elif leaf['val'] == 'gcount':
            cur = Flatten(Group({(T % 2 if spelling == 0 else (lambda t: t % 2)): Count()}))
        elif leaf['val'] == 'gbsum':
            cur = Merge(Group({(T % 2 if spelling == 0 else (lambda t: t % 2)): Sum()}))
        elif leaf['val'] in ('cats', 'catt'):
            cur = Sum(init=str if leaf['val'] == 'cats' else tuple)      # addition that is not commutative
        elif a == 'Sum':
            cur = Sum() if leaf['val'] == 'ident' and spelling == 0 else Sum(_val_fn(leaf['val'], spelling))
        elif a == 'Flatten':
            cur = Flatten() if boxed else Flatten(lambda t: [t, t + 10])
        elif a == 'Merge':
            cur = Merge() if boxed else Merge(lambda t: {t % 2: t, 'v': t})
        else:
            raise vlib.MachineryError('unknown aggregator %r' % (a,))
    objs = [cur]
    keyobjs = [None]
    used_t = False
    for lv in reversed(levels[:-1]):
        if lv['op'] == 'dict':
            # T is one object: only one level may use it as its key spec, so that the key-spec
            # objects of different levels stay distinct objects (as in the specification)
            k = _key_fn(lv['key'], 1 if (lv['key'] == 'ident' and used_t and spelling == 0) else spelling, ub)
            used_t = used_t or k is T
            cur = {k: cur}
            keyobjs.insert(0, k)
        elif lv['op'] == 'limit':
            cur = Limit(lv['n'], cur)
            keyobjs.insert(0, None)
        else:
            raise vlib.MachineryError('bad level %r' % (lv,))
        objs.insert(0, cur)
    return Group(cur), objs, keyobjs


class RealSpec:
    def __init__(self, levels, spelling, boxed=False):
        self.levels = levels
        boxed = boxed or is_inner(levels)
        self.boxed = box_kind(levels) if boxed else None
        self.g, self.objs, self.keyobjs = build_group(levels, spelling, boxed)
        # id(spec node) -> abstract value ; objects used as accumulator-tree keys -> abstract key
        self.idmap = {id(o): l for l, o in enumerate(self.objs, 1) if levels[l - 1]['op'] in ('dict', 'list', 'list2')}
        self.objmap = {}
        for l, o in enumerate(self.objs, 1):
            if levels[l - 1]['op'] in ('agg', 'limit'):
                self.objmap[id(o)] = {'k': 'aggobj', 'n': l}
        for l, o in enumerate(self.keyobjs, 1):
            if o is not None:
                self.objmap[id(o)] = {'k': 'keyspec', 'n': l}

    def feed(self, x):
        """the real item handed to the library (boxed when the spec works on boxed items)"""
        t = self.item(x)
        if self.boxed == 'Flatten':
            return [t, t + 10]
        if self.boxed == 'Merge':
            return {t % 2: t, 'v': t}
        return t

    def item(self, x):
        if x['k'] == 'int':
            return x['i']
        if x['k'] == 'id':
            return id(self.objs[x['n'] - 1])
        if x['k'] == 'any':
            return AnyEq(x['i'])
        if x['k'] == 'strict':
            return StrictEq(x['i'])
        if x['k'] == 'str':
            return x['s']
        if x['k'] == 'tup':
            return tuple(self.item(y) for y in x['items'])
        if x['k'] == 'bool':
            return x['b']
        if x['k'] == 'none':
            return None
        if x['k'] == 'frac':
            return x['n'] / x['d']                      # a float: 1.0 is equal to 1 and True, and distinct
        if x['k'] == 'list':
            return [self.item(y) for y in x['items']]   # unhashable
        raise vlib.MachineryError('bad item %r' % (x,))

    # ---- projection of an observed result into the structural values of the spec ----
    def proj(self, o, depth=0):
        if depth > 12:
            return {'k': 'opaque', 's': 'deep'}
        if type(o) is AnyEq or type(o) is StrictEq:      # first: nothing below may use == on them
            return {'k': 'any' if type(o) is AnyEq else 'strict', 'i': o.i}
        if o is None:
            return {'k': 'none'}
        if o is SKIP or o is STOP:
            return {'k': 'sent', 's': 'SKIP' if o is SKIP else 'STOP'}
        if isinstance(o, bool):
            return {'k': 'bool', 'b': o}
        if isinstance(o, int):
            if o in self.idmap:
                return {'k': 'id', 'n': self.idmap[o]}
            if abs(o) >= 2 ** 31:
                return {'k': 'opaque', 's': 'bigint'}
            return {'k': 'int', 'i': o}
        if isinstance(o, float):
            fr = Fraction(o).limit_denominator(10000)
            if float(fr) == o:
                return {'k': 'frac', 'n': fr.numerator, 'd': fr.denominator}
            return {'k': 'opaque', 's': repr(o)}
        if isinstance(o, str):
            return {'k': 'str', 's': o}
        if id(o) in self.objmap:
            return self.objmap[id(o)]
        if type(o) is dict or isinstance(o, dict) and type(o).__module__ == 'codec':
            return {'k': 'dict', 'items': [[self.proj(k, depth + 1), self.proj(v, depth + 1)] for k, v in o.items()]}
        if type(o) is list or isinstance(o, list) and type(o).__module__ == 'codec':
            return {'k': 'list', 'items': [self.proj(v, depth + 1) for v in o]}
        if isinstance(o, tuple):
            return {'k': 'tup', 'items': [self.proj(v, depth + 1) for v in o]}
        return {'k': 'opaque', 's': type(o).__name__}


def containers(o, acc=None):
    """ids of the dict / list objects reachable from a result"""
    acc = set() if acc is None else acc
    if isinstance(o, (dict, list)) and id(o) not in acc:
        acc.add(id(o))
        for v in (o.values() if isinstance(o, dict) else o):
            containers(v, acc)
    return acc


def make_target(rs, items, variant, boxed=None, odd=False):
    """real target for an item sequence, built through codec.Heap so that it can be snapshotted.
    odd=True: the containers (target, boxes) are instances of list / tuple / dict subclasses that override
    __getitem__ and are falsy although they hold data; Merge boxes are OrderedDicts whose raw dict order is
    the reverse of their own; pairs are namedtuples"""
    boxed = rs.boxed
    if any(x['k'] not in ('int', 'id', 'str') and not (x['k'] == 'tup' and x['items'] and not odd) for x in items):
        # not codec values (hostile __eq__, floats, the () singleton, unhashables, namedtuples): a plain
        # target, no snapshot
        tgt = [Pair(*rs.item(x)) if (odd and x['k'] == 'tup' and len(x['items']) == 2) else rs.item(x) for x in items]
        if odd:
            tgt = codec.FALSY_LOGGING['list'](tgt)
        tgt = tuple(tgt) if variant == 'tuple' else tgt
        return None, None, (iter(tgt) if variant == 'gen' else tgt)
    cells, refs = [], []
    for x in items:
        t = rs.item(x)
        if boxed == 'Flatten':
            cells.append({'cls': 'list', 'items': [{'k': 'int', 'i': t}, {'k': 'int', 'i': t + 10}]})
            refs.append({'k': 'ref', 'a': len(cells)})
        elif boxed == 'Merge':
            cells.append({'cls': 'odict' if odd else 'dict', 'items': [[{'k': 'int', 'i': t % 2}, {'k': 'int', 'i': t}],
                                                   [{'k': 'str', 's': 'v'}, {'k': 'int', 'i': t}]]})
            refs.append({'k': 'ref', 'a': len(cells)})
        elif x['k'] == 'str':
            refs.append({'k': 'str', 's': t})
        elif x['k'] == 'tup':
            cells.append({'cls': 'tuple', 'items': [{'k': 'int', 'i': y} if isinstance(y, int) else {'k': 'str', 's': y}
                                                    for y in t]})
            refs.append({'k': 'ref', 'a': len(cells)})
        else:
            refs.append({'k': 'int', 'i': t})
    cells.append({'cls': 'tuple' if variant == 'tuple' else 'list', 'items': refs})
    heap = codec.Heap(cells, codec.FALSY_LOGGING if odd else codec.PLAIN)
    tgt = heap.objs[len(cells)]
    return heap, cells, (iter(tgt) if variant == 'gen' else tgt)


def observe(rs, thunk):
    try:
        r = thunk()
    except Exception as e:          # noqa: BLE001 - the class is the observation
        return None, {'k': 'exc', 's': codec.exc_class_name(e)}
    return r, rs.proj(r)


# ---- finding regions (mirror GlomGroup!RegionFirstStop / RegionIdCollision / RegionLimitEmpty) --
def _key_apply(kf, x):
    if kf == 'ident':
        if x['k'] in ('int', 'bool', 'frac'):           # equal as dict keys whatever their type
            return ('num', Fraction(*{'int': lambda: (x['i'], 1), 'bool': lambda: (int(x['b']), 1),
                                      'frac': lambda: (x['n'], x['d'])}[x['k']]()))
        return ('v', json.dumps(x, sort_keys=True))
    if kf == 'len':
        return len(x['s']) if x['k'] == 'str' else len(x['items'])
    if kf == 'first':
        return x['s'][0] if x['k'] == 'str' else json.dumps(x['items'][0], sort_keys=True)
    i = x.get('i')
    return {'mod2': lambda: i % 2, 'half': lambda: i // 2, 'const': lambda: 7,
            'skip0': lambda: 'SKIP' if i == 0 else i % 2, 'skipodd': lambda: 'SKIP' if i % 2 else i}[kf]()


def _survives(levels, x):
    for lv in levels:
        if lv['op'] == 'dict' and _key_apply(lv['key'], x) == 'SKIP':
            return False
        if lv['op'] in ('list', 'last') and lv['val'] == 'skip3' and x['i'] % 4 == 3:
            return False
    return True


def passed(levels, items):
    return items[:levels[0]['n']] if levels[0]['op'] == 'limit' else items


def regions(levels, items):
    out = set()
    leaf = levels[-1]
    ps = passed(levels, items)
    nk = sum(1 for lv in levels if lv['op'] == 'dict')
    # a node that answers STOP when full (First: capacity 1, a Limit under the key levels: n)
    caps = [1] if (leaf['op'] == 'agg' and leaf['agg'] == 'First') else []
    caps += [lv['n'] for l, lv in enumerate(levels) if lv['op'] == 'limit' and l > 0]
    if caps and nk >= 1:
        offered = {}
        for x in ps:
            if not _survives(levels, x):
                continue
            path = tuple(_key_apply(lv['key'], x) for lv in levels if lv['op'] == 'dict')
            offered[path] = offered.get(path, 0) + 1
        if any(n > min(caps) for n in offered.values()):
            out.add('first-under-key-stop')
    d = 1 if levels[0]['op'] == 'limit' else 0
    if levels[d]['op'] == 'dict' and levels[d + 1]['op'] != 'last' and \
            any(_key_apply(levels[d]['key'], x) != 'SKIP' and not _survives(levels, x) for x in ps):
        out.add('skip-leaves-trace')
    return out


def match_finding(f, case):
    """A known finding covers a case only when the case lies in the finding's region AND the
    library did exactly what the transcription of the defective mechanism predicts."""
    kind = f.get('match', {}).get('kind')
    if case.get('kind') != 'group-result' or kind not in regions(case['spec'], case['items']):
        return False
    return bool(case.get('obs_is_mech'))


# ---- spec -> code ------------------------------------------------------------------------
_CACHE = {}


def real_specs(levels):
    key = json.dumps(levels, sort_keys=True)
    if key not in _CACHE:
        bk = box_kind(levels)
        _CACHE[key] = dict(plain=[RealSpec(levels, 0), RealSpec(levels, 1), RealSpec(levels, 2)],
                           boxed=[RealSpec(levels, 0, True), RealSpec(levels, 1, True)]
                           if bk and not is_inner(levels) else [],
                           last={})
    return _CACHE[key]


class Out:
    def __init__(self):
        self.calls = 0
        self.states = 0
        self.nontrivial = 0
        self.unconstrained = 0
        self.agree = 0
        self.bad = []
        self.samples = []
        self.known = {}

    def as_dict(self):
        return self.__dict__


def _check_result(out, levels, items, ev, rs, how, res, obs, heap=None, cells=None):
    out.calls += 1
    why = None
    if heap is not None and heap.snapshot() != cells:
        why = 'input mutated'
    elif not ev['def']:
        out.unconstrained += 1
        leaf = levels[-1]
        if leaf['op'] == 'agg' and leaf['agg'] == 'Sample' and not any(lv['op'] == 'dict' for lv in levels):
            # more than n values offered: the sample is random, but it is n of the offered values
            pool = [json.dumps(x, sort_keys=True) for x in passed(levels, items)]
            got = [json.dumps(x, sort_keys=True) for x in obs.get('items', [])] if obs.get('k') == 'list' else None
            if len(pool) > leaf['n'] and (got is None or len(got) != leaf['n'] or
                                          any(got.count(g) > pool.count(g) for g in got)):
                why = 'Sample(%d) is not %d of the values offered' % (leaf['n'], leaf['n'])
    elif obs != ev['pred']:
        why = 'result differs from the reference grouping'
    if why is None:
        out.agree += 1
        return True
    case = dict(kind='group-result', spec=levels, items=items, pred=ev['pred'], mech=ev['out'], obs=obs,
                obs_is_mech=(obs == ev['out'] and why != 'input mutated'), how=how,
                regions=sorted(regions(levels, items)))
    out.bad.append(dict(why='%s [%s]: predicted %s observed %s' % (why, how, json.dumps(ev['pred']), json.dumps(obs)),
                        case=case))
    return False


def _independence(out, levels, items, ev, rs, slot, res, obs, how):
    """results of different calls on the same spec object share no container, and an earlier
    result is not changed by a later call"""
    prev = slot.get('prev')
    if prev is not None:
        pres, pobs, pitems = prev
        if rs.proj(pres) != pobs:
            out.bad.append(dict(why='result of an earlier evaluation changed during a later one [%s]' % how,
                                case=dict(kind='carry-over', spec=levels, items=items, earlier_items=pitems,
                                          earlier=pobs, now=rs.proj(pres))))
        elif containers(pres) & containers(res):
            out.bad.append(dict(why='results of two evaluations share a container [%s]' % how,
                                case=dict(kind='carry-over', spec=levels, items=items, earlier_items=pitems,
                                          earlier=pobs, now=obs)))
    # the caller may do what it likes with a result: change it before the spec object is used again
    if isinstance(res, list):
        res.append('changed by the caller')
        for v in res[:-1]:
            if isinstance(v, list):
                v.append('changed by the caller')
    elif isinstance(res, dict):
        for v in list(res.values()):
            if isinstance(v, list):
                v.append('changed by the caller')
            elif isinstance(v, dict):
                v['changed by the caller'] = 0
        res['changed by the caller'] = 0
    slot['prev'] = (res, rs.proj(res), items) if res is not None else None


def replay_flat(levels, items, ev, out):
    """one evaluation, items fed so far = one glom() call (in several forms)"""
    specs = real_specs(levels)
    specs['turn'] = turn = specs.get('turn', 0) + 1
    plans = [(specs['plain'][0], 0, 'list', None),
             (specs['plain'][0], 0, 'gen', None) if turn % 2 else (specs['plain'][1], 1, 'tuple', None)]
    if turn % 3 == 0:
        plans.append((specs['plain'][2], 2, 'list', None))          # key specs wrapped in Auto(...)
    if specs['boxed']:
        plans.append((specs['boxed'][0], 0, 'list', True) if turn % 2 else (specs['boxed'][1], 1, 'gen', True))
    for rs, spelling, variant, boxed in plans:
        boxed = rs.boxed
        odd = turn % 2 == 0 and variant != 'gen'
        heap, cells, tgt = make_target(rs, items, variant, odd=odd)
        how = 'glom(%s target, g) spelling=%d%s%s' % (variant, spelling, ' boxed items' if boxed else '',
                                                      ' falsy subclass containers' if odd else '')
        res, obs = observe(rs, lambda: glom.glom(tgt, rs.g))
        ok = _check_result(out, levels, items, ev, rs, how, res, obs, heap, cells)
        if ok:
            _independence(out, levels, items, ev, rs, specs['last'].setdefault((spelling, bool(boxed)), {}), res, obs, how)
    # the same spec object evaluated twice inside one outer call: [g] and Group([g])
    if items:
        rs = specs['plain'][0]
        for form in (('[g]',) if turn % 2 else ('Group([g])',)):
            h1, c1, t1 = make_target(rs, items, 'list')
            h2, c2, t2 = make_target(rs, items, 'tuple')
            outer = [rs.g] if form == '[g]' else Group([rs.g])
            try:
                both = glom.glom([t1, t2], outer)
            except Exception as e:      # noqa: BLE001
                both = None
                o12 = [{'k': 'exc', 's': codec.exc_class_name(e)}] * 2
            else:
                if type(both) is not list or len(both) != 2:       # the outer spec lost a result
                    o12 = [{'k': 'opaque', 's': 'outer result %s' % json.dumps(rs.proj(both))}] * 2
                    both = None
                else:
                    o12 = [rs.proj(b) for b in both]
            for k in (0, 1):
                _check_result(out, levels, items, ev, rs, 'glom([t, t], %s)[%d]' % (form, k),
                              both[k] if both else None, o12[k])
            if both is not None and all(isinstance(b, (dict, list)) for b in both) and \
                    containers(both[0]) & containers(both[1]):
                out.bad.append(dict(why='two evaluations nested in %s share a container' % form,
                                    case=dict(kind='carry-over', spec=levels, items=items, now=o12)))


def play_hist(rs, hist):
    """Perform a history of new / feed / fault / fin actions on the real spec object: every
    evaluation is a glom() call on a generator target (pulled lazily); a nested `new` runs the inner
    glom() call while the outer one waits for its next item; `fault` makes the generator raise
    instead of yielding.  -> {evaluation number: (result, projection)}"""
    results = {}
    pos = [0]
    count = [0]
    faulted = set()

    def run_eval():
        count[0] += 1
        e = count[0]
        pos[0] += 1

        def gen():
            while pos[0] < len(hist):
                a = hist[pos[0]]
                if a['a'] == 'feed':
                    pos[0] += 1
                    yield rs.feed(a['x'])
                elif a['a'] == 'new':
                    run_eval()
                elif a['a'] == 'fault':
                    pos[0] += 1
                    faulted.add(e)
                    raise SourceError('the source fails here')
                else:
                    pos[0] += 1
                    return
        gobj = gen()
        results[e] = observe(rs, lambda: glom.glom(gobj, rs.g))
        try:
            for _ in gobj:      # the library stopped early: the remaining events still happen
                pass
        except SourceError:
            pass
        if e in faulted and pos[0] < len(hist) and hist[pos[0]]['a'] == 'fin':
            pos[0] += 1         # the model finishes a failed evaluation explicitly
    while pos[0] < len(hist):
        if hist[pos[0]]['a'] != 'new':
            raise vlib.MachineryError('history does not start an evaluation at %d: %r' % (pos[0], hist))
        run_eval()
    return results


def replay_hist(levels, hist, evals, out):
    specs = real_specs(levels)
    for sp_i, rs in enumerate(specs['plain']):
        results = play_hist(rs, hist)
        if len(results) != len(evals):
            raise vlib.MachineryError('history replay produced %d evaluations, model has %d' % (len(results), len(evals)))
        for e, ev in enumerate(evals, 1):
            res, obs = results[e]
            _check_result(out, levels, ev['items'], ev, rs, 'history %s eval %d spelling=%d'
                          % (''.join(a['a'][0] for a in hist), e, sp_i), res, obs)
        objs = [results[e][0] for e in sorted(results)]
        for i in range(len(objs)):
            for j in range(i + 1, len(objs)):
                if containers(objs[i]) & containers(objs[j]):
                    out.bad.append(dict(why='evaluations %d and %d of one history share a container' % (i + 1, j + 1),
                                        case=dict(kind='carry-over', spec=levels, hist=hist)))


def worker(states):
    out = Out()
    for st in states:
        evals, hist, levels = st['evals'], st['hist'], st['spec']
        if not evals:
            continue
        out.states += 1
        flat = len(evals) == 1 and all(a['a'] not in ('fin', 'fault') for a in hist)
        nbad = len(out.bad)
        if flat:
            ev = evals[0]
            replay_flat(levels, ev['items'], ev, out)
            if len(ev['items']) >= 2 and ev['def']:
                out.nontrivial += 1
        else:
            replay_hist(levels, hist, evals, out)
            if sum(len(ev['items']) for ev in evals) >= 2:
                out.nontrivial += 1
        if len(out.samples) < 1 and len(hist) >= 4 and len(out.bad) == nbad:
            out.samples.append(dict(spec=levels, hist=hist,
                                    predicted=[ev['pred'] for ev in evals]))
    # pre-classify so that the parent does not have to carry thousands of identical known cases
    keep, seen = [], {}
    findings = vlib.load_findings().get('findings', [])
    for b in out.bad:
        hit = None
        for f in findings:
            if f['property'] == PROP and match_finding(f, b['case']):
                hit = f['id']
                break
        if hit:
            seen[hit] = seen.get(hit, 0) + 1
        if hit and seen[hit] > 3:
            out.known[hit] = out.known.get(hit, 0) + 1      # counted, not carried
        else:
            keep.append(b)
    out.bad = keep
    return out.as_dict()


# ---- code -> spec ------------------------------------------------------------------------
KFS = ['ident', 'mod2', 'half', 'const', 'skip0', 'skipodd']
AGGS = ['First', 'Max', 'Min', 'Avg', 'Count', 'Sum', 'Flatten', 'Merge']


ORD_KFS = ['ident', 'len', 'first']
ODD_ITEMS = [{'k': 'int', 'i': 0}, {'k': 'bool', 'b': False}, {'k': 'int', 'i': 1}, {'k': 'frac', 'n': 1, 'd': 1},
             {'k': 'bool', 'b': True}, {'k': 'str', 's': ''}, {'k': 'none'}, {'k': 'tup', 'items': []},
             {'k': 'int', 'i': -1}, {'k': 'int', 'i': -2}, {'k': 'list', 'items': [{'k': 'int', 'i': 7}]}]
WORDS = ['a', 'ab', 'b', 'ba']


def rand_spec(rng):
    """-> (levels, item kind)"""
    nk = rng.choice([0, 1, 1, 2, 2, 3])
    kind = rng.choice(['int', 'int', 'int', 'int', 'int', 'str', 'tup', 'hostile', 'odd'])
    levels = []
    r = rng.random()
    if r < 0.25:
        levels.append({'op': 'limit', 'n': rng.choice([0, 1, 2, 3, 5, 8])})
    levels += [{'op': 'dict', 'key': rng.choice({'int': KFS, 'hostile': ['mod2', 'half', 'const'], 'odd': ['ident', 'ident', 'const']}.get(kind, ORD_KFS))}
               for _ in range(nk)]
    r = rng.random()
    if kind in ('hostile', 'odd'):
        leaf = rng.choice([{'op': 'list', 'agg': '', 'val': 'ident'}, {'op': 'list', 'agg': '', 'val': 'ident'},
                           {'op': 'last', 'agg': '', 'val': 'ident'}, {'op': 'agg', 'agg': 'First', 'val': 'ident'},
                           {'op': 'agg', 'agg': 'Count', 'val': 'ident'},
                           {'op': 'agg', 'agg': 'Sample', 'val': 'ident', 'n': rng.choice([0, 20])}])
    elif kind != 'int':
        leaf = rng.choice([{'op': 'list', 'agg': '', 'val': 'ident'}, {'op': 'last', 'agg': '', 'val': 'ident'}] +
                          [{'op': 'agg', 'agg': a, 'val': 'ident'} for a in ('First', 'Max', 'Min', 'Max', 'Min', 'Count')] +
                          [{'op': 'agg', 'agg': 'Sum', 'val': 'cats' if kind == 'str' else 'catt'}] * 2 +
                          [{'op': 'agg', 'agg': 'Sample', 'val': 'ident', 'n': rng.choice([2, 20])}])
    elif r < 0.2:
        leaf = {'op': 'list', 'agg': '', 'val': rng.choice(['ident', 'inc', 'x10', 'skip3'])}
    elif r < 0.27:
        leaf = {'op': 'list2', 'agg': '', 'val': rng.choice(['ident', 'inc'])}
    elif r < 0.4:
        leaf = {'op': 'last', 'agg': '', 'val': rng.choice(['ident', 'x10'] + (['skip3'] if nk > 0 else []))}
    elif r < 0.47:
        leaf = {'op': 'agg', 'agg': 'Sample', 'val': 'ident', 'n': rng.choice([2, 3, 20])}
    else:
        a = rng.choice(AGGS)
        vf = {'Flatten': rng.choice(['pair', 'pair', 'gcount']), 'Merge': rng.choice(['kv', 'kv', 'gbsum']),
              'Sum': rng.choice(['ident', 'inc', 'gsum'])}.get(a, 'ident')
        leaf = {'op': 'agg', 'agg': a, 'val': vf}
    if nk >= 1 and leaf['val'] != 'skip3' and leaf.get('agg') != 'Sample' and rng.random() < 0.2:
        levels.append({'op': 'limit', 'n': rng.choice([1, 2, 3])})      # a Limit under the key levels
    levels.append(leaf)
    return levels, kind


def id_safe(levels):
    leaf = levels[-1]
    return all(lv['key'] == 'ident' for lv in levels if lv['op'] == 'dict') and \
        ((leaf['op'] in ('list', 'last') and leaf['val'] == 'ident') or
         (leaf['op'] == 'agg' and leaf['agg'] in ('First', 'Count')))


def rand_hist(rng, levels, max_items, nest, kind='int'):
    pool = [{'k': 'int', 'i': i} for i in range(-3, 8)]
    if kind == 'str':
        pool = [{'k': 'str', 's': w} for w in WORDS]
    elif kind == 'hostile':
        pool = [{'k': kk, 'i': i} for kk in ('any', 'strict') for i in range(4)]
    elif kind == 'odd':
        pool = ODD_ITEMS
    elif kind == 'tup':
        pool = [{'k': 'tup', 'items': [{'k': 'int', 'i': i}, {'k': 'str', 's': w}]} for i in (0, 1, 2) for w in WORDS]
    elif id_safe(levels) and rng.random() < 0.5:
        pool = pool[2:5] + [{'k': 'id', 'n': l} for l, lv in enumerate(levels, 1) if lv['op'] in ('dict', 'list')]
    hist = []
    if not nest:
        hist.append({'a': 'new'})
        hist += [{'a': 'feed', 'x': rng.choice(pool)} for _ in range(rng.randint(0, max_items))]
        if rng.random() < 0.2:
            hist.append({'a': 'fault'})         # the lazy source fails after these items
        return hist
    depth, evs = 0, 0
    for _ in range(rng.randint(4, 16)):
        r = rng.random()
        if depth == 0 or (r < 0.2 and depth < 3 and evs < 5):
            hist.append({'a': 'new'})
            depth += 1
            evs += 1
        elif r < 0.35:
            if rng.random() < 0.2:
                hist.append({'a': 'fault'})
            hist.append({'a': 'fin'})
            depth -= 1
        else:
            hist.append({'a': 'feed', 'x': rng.choice(pool)})
    return hist


def record(check, n, seed):
    rng = random.Random(seed)
    rows = []
    for k in range(n):
        levels, kind = rand_spec(rng)
        nest = rng.random() < 0.3
        hist = rand_hist(rng, levels, 14, nest, kind)
        rs = RealSpec(levels, rng.choice([0, 1, 2]))   # a fresh spec object per row
        results = play_hist(rs, hist)
        rows.append(dict(spec=levels, hist=hist, obs=[results[e][1] for e in sorted(results)]))
    # self-test of the binding: one recorded row with a corrupted observation must be rejected
    donor = next(r for r in rows if r['obs'] and r['obs'][0]['k'] in ('dict', 'list') and r['obs'][0]['items'])
    corrupt = json.loads(json.dumps(donor))
    corrupt['obs'][0]['items'] = corrupt['obs'][0]['items'][:-1]
    corrupt['corrupted'] = True
    rows.append(corrupt)
    rejects = vlib.validate_rows(check, 'Trace_C16', rows, 'random-histories', chunk=max(200, n // 6 + 1),
                                 workers_parallel=6)
    drift = 0
    caught = False
    for row, rej in rejects:
        if row.get('corrupted'):
            caught = True
            continue
        if rej['clause'] == 'drift':     # law holds on the observables, mechanism model differs: no alarm
            drift += 1
            continue
        if rej['clause'] == 'shape':
            raise vlib.MachineryError('recorded row does not fit the trace module: %r' % (row,))
        items = rej['items']
        case = dict(kind='group-result', spec=row['spec'], items=items, hist=row['hist'], obs=rej['obs'],
                    pred=rej['pred'], mech=rej['mech'], obs_is_mech=(rej['obs'] == rej['mech']),
                    regions=sorted(regions(row['spec'], items)), how='recorded history, evaluation %d' % rej['e'])
        check.violation(case, 'recorded execution rejected by the specification (clause %s): predicted %s observed %s'
                        % (rej['clause'], json.dumps(rej['pred']), json.dumps(rej['obs'])), matcher=match_finding)
    if not caught:
        raise vlib.MachineryError('the corrupted recorded row was not rejected by Trace_C16')
    check.extra['corrupted_row_rejected'] = True
    check.extra['recorded_rows'] = len(rows) - 1
    check.extra['recorded_drift'] = drift
    for row in rows[:2]:
        check.sample(dict(kind='recorded', **row), limit=6)
    return rows


# ---- driver ------------------------------------------------------------------------------
def tla_set(xs):
    return '{' + ', '.join(json.dumps(x) for x in xs) + '}'


def consts(**kw):
    base = dict(MaxKeyLevels=1, MaxItems=3, MaxTotal=3, ItemMax=2, NegItems=0, MaxEvals=1, MaxDepth=1, WithIds='FALSE',
                KFs=tla_set(KFS), Aggs=tla_set(AGGS), VFs=tla_set(['ident', 'inc', 'x10', 'skip3']),
                LimitNs='{99, 0, 2}', ItemKind='"int"', NestedLimitNs='{99}', SampleNs='{}', WithFaults='FALSE', Fixes='{}',
                Mutant='"none"')
    base.update(kw)
    return base


UNIVERSES = {
    'quick': [
        ('flat', consts(MaxKeyLevels=2, MaxItems=3, MaxTotal=3, ItemMax=2, NegItems=1, VFs=tla_set(['ident', 'inc', 'x10', 'skip3', 'inner']),
                        KFs=tla_set(['ident', 'mod2', 'skip0']),
                        LimitNs='{99, 2}')),
        ('flat-deep', consts(MaxKeyLevels=3, MaxItems=3, MaxTotal=3, ItemMax=2, KFs=tla_set(['half', 'skipodd']),
                             Aggs=tla_set(['First', 'Avg', 'Flatten']), VFs=tla_set(['ident']), LimitNs='{99, 2}')),
        ('ord-str', consts(MaxKeyLevels=1, MaxItems=3, MaxTotal=3, ItemKind='"str"', KFs=tla_set(ORD_KFS),
                           Aggs=tla_set(['First', 'Max', 'Min', 'Count']), VFs=tla_set(['ident', 'cats']), LimitNs='{99, 2}',
                           SampleNs='{2}')),
        ('ord-tup', consts(MaxKeyLevels=1, MaxItems=3, MaxTotal=3, ItemKind='"tup"', KFs=tla_set(ORD_KFS),
                           Aggs=tla_set(['First', 'Max', 'Min', 'Count']), VFs=tla_set(['ident', 'catt']), LimitNs='{99, 2}',
                           SampleNs='{2}')),
        ('constructs', consts(MaxKeyLevels=1, MaxItems=3, MaxTotal=3, ItemMax=2, NegItems=1, KFs=tla_set(['mod2', 'skip0']),
                              Aggs=tla_set(['First', 'Max', 'Sum']), VFs=tla_set(['ident', 'list2']), LimitNs='{99, 2}',
                              NestedLimitNs='{99, 1, 2}', SampleNs='{2}')),
        ('lazy', consts(MaxKeyLevels=1, MaxItems=3, MaxTotal=3, ItemMax=1, KFs=tla_set(['mod2']),
                        Aggs=tla_set(['First', 'Max', 'Count']), VFs=tla_set(['ident']), LimitNs='{99, 1, 2}',
                        WithFaults='TRUE')),
        ('hostile', consts(MaxKeyLevels=1, MaxItems=3, MaxTotal=3, ItemKind='"hostile"', KFs=tla_set(['mod2', 'const']),
                           Aggs=tla_set(['First', 'Count']), VFs=tla_set(['ident']), LimitNs='{99, 2}', SampleNs='{3}')),
        ('odd', consts(MaxKeyLevels=1, MaxItems=2, MaxTotal=2, ItemKind='"odd"', KFs=tla_set(['ident', 'const']),
                       Aggs=tla_set(['First', 'Count']), VFs=tla_set(['ident']), LimitNs='{99, 1}', SampleNs='{0, 2}')),
        ('limit0', consts(MaxKeyLevels=1, MaxItems=2, MaxTotal=2, ItemMax=1, KFs=tla_set(['mod2']), LimitNs='{0}')),
        ('ids', consts(MaxKeyLevels=2, MaxItems=3, MaxTotal=3, ItemMax=1, WithIds='TRUE', KFs=tla_set(['ident']),
                       Aggs=tla_set(['First', 'Count']), VFs=tla_set(['ident']), LimitNs='{99, 2}')),
        ('nested', consts(MaxKeyLevels=1, MaxItems=3, MaxTotal=4, ItemMax=1, MaxEvals=2, MaxDepth=2,
                          KFs=tla_set(['mod2']), Aggs=tla_set(['First', 'Max', 'Merge']),
                          VFs=tla_set(['ident']), LimitNs='{99}')),
    ],
    'thorough': [
        ('flat', consts(MaxKeyLevels=2, MaxItems=4, MaxTotal=4, ItemMax=2, NegItems=1, VFs=tla_set(['ident', 'inc', 'x10', 'skip3', 'inner']),
                        KFs=tla_set(['ident', 'mod2', 'skip0']),
                        LimitNs='{99, 3}')),
        ('flat-long', consts(MaxKeyLevels=1, MaxItems=5, MaxTotal=5, ItemMax=2, NegItems=1, VFs=tla_set(['ident', 'inc', 'x10', 'skip3', 'inner']),
                             KFs=tla_set(['mod2', 'skip0']),
                             LimitNs='{99, 3}')),
        ('flat-deep', consts(MaxKeyLevels=3, MaxItems=4, MaxTotal=4, ItemMax=2, KFs=tla_set(['mod2', 'half', 'skipodd']),
                             Aggs=tla_set(['First', 'Avg', 'Flatten', 'Count']), VFs=tla_set(['ident']),
                             LimitNs='{99, 3}')),
        ('ord-str', consts(MaxKeyLevels=2, MaxItems=4, MaxTotal=4, ItemKind='"str"', KFs=tla_set(ORD_KFS),
                           Aggs=tla_set(['First', 'Max', 'Min', 'Count']), VFs=tla_set(['ident', 'cats']), LimitNs='{99, 2}',
                           SampleNs='{2}')),
        ('ord-tup', consts(MaxKeyLevels=2, MaxItems=4, MaxTotal=4, ItemKind='"tup"', KFs=tla_set(ORD_KFS),
                           Aggs=tla_set(['First', 'Max', 'Min', 'Count']), VFs=tla_set(['ident', 'catt']), LimitNs='{99, 2}',
                           SampleNs='{2}')),
        ('constructs', consts(MaxKeyLevels=2, MaxItems=4, MaxTotal=4, ItemMax=2, NegItems=1, KFs=tla_set(['mod2', 'skip0']),
                              Aggs=tla_set(['First', 'Max', 'Sum', 'Flatten']), VFs=tla_set(['ident', 'list2']),
                              LimitNs='{99, 3}', NestedLimitNs='{99, 1, 2}', SampleNs='{2, 3}')),
        ('lazy', consts(MaxKeyLevels=2, MaxItems=4, MaxTotal=4, ItemMax=1, KFs=tla_set(['mod2', 'skip0']),
                        Aggs=tla_set(['First', 'Max', 'Count', 'Flatten']), VFs=tla_set(['ident']), LimitNs='{99, 0, 1, 2}',
                        WithFaults='TRUE')),
        ('lazy-nested', consts(MaxKeyLevels=1, MaxItems=2, MaxTotal=3, ItemMax=1, MaxEvals=2, MaxDepth=2, KFs=tla_set(['mod2']),
                               Aggs=tla_set(['First', 'Max']), VFs=tla_set(['ident']), LimitNs='{99, 1}',
                               WithFaults='TRUE')),
        ('hostile', consts(MaxKeyLevels=2, MaxItems=4, MaxTotal=4, ItemKind='"hostile"', KFs=tla_set(['mod2', 'half', 'const']),
                           Aggs=tla_set(['First', 'Count']), VFs=tla_set(['ident']), LimitNs='{99, 2}', SampleNs='{4}')),
        ('odd', consts(MaxKeyLevels=2, MaxItems=3, MaxTotal=3, ItemKind='"odd"', KFs=tla_set(['ident', 'const']),
                       Aggs=tla_set(['First', 'Count']), VFs=tla_set(['ident']), LimitNs='{99, 2}', SampleNs='{0, 2}')),
        ('limit0', consts(MaxKeyLevels=2, MaxItems=2, MaxTotal=2, ItemMax=1, KFs=tla_set(['mod2', 'skip0']), LimitNs='{0}')),
        ('ids', consts(MaxKeyLevels=3, MaxItems=4, MaxTotal=4, ItemMax=1, WithIds='TRUE', KFs=tla_set(['ident']),
                       Aggs=tla_set(['First', 'Count']), VFs=tla_set(['ident']), LimitNs='{99, 2}')),
        ('nested', consts(MaxKeyLevels=1, MaxItems=3, MaxTotal=4, ItemMax=1, MaxEvals=3, MaxDepth=2,
                          KFs=tla_set(['mod2']), Aggs=tla_set(['First', 'Max', 'Avg', 'Merge']),
                          VFs=tla_set(['ident']), LimitNs='{99}')),
    ],
}
SMALL = consts(MaxKeyLevels=2, MaxItems=3, MaxTotal=3, ItemMax=2, KFs=tla_set(['ident', 'mod2']), LimitNs='{99, 0, 2}')
SMALL_SKIP = consts(MaxKeyLevels=2, MaxItems=3, MaxTotal=3, ItemMax=3, KFs=tla_set(['mod2', 'skip0']),
                    Aggs=tla_set(['Count', 'First']), LimitNs='{99}')
SMALL_IDS = consts(MaxKeyLevels=1, MaxItems=3, MaxTotal=3, ItemMax=1, WithIds='TRUE', KFs=tla_set(['ident']),
                   Aggs=tla_set(['First', 'Count']), VFs=tla_set(['ident']), LimitNs='{99}')
SMALL_INNER = consts(MaxKeyLevels=1, MaxItems=2, MaxTotal=2, ItemMax=1, NegItems=1, KFs=tla_set(['mod2']),
                     Aggs=tla_set(['Sum', 'Flatten', 'Merge']), VFs=tla_set(['ident', 'inner']), LimitNs='{99}')
SMALL_ORD = consts(MaxKeyLevels=1, MaxItems=2, MaxTotal=2, ItemKind='"str"', KFs=tla_set(['len']),
                   Aggs=tla_set(['Max', 'Min']), VFs=tla_set(['ident']), LimitNs='{99}')
SMALL_CONS = consts(MaxKeyLevels=1, MaxItems=3, MaxTotal=3, ItemMax=1, KFs=tla_set(['mod2']), Aggs=tla_set(['Max']),
                    VFs=tla_set(['ident', 'list2']), LimitNs='{99}', NestedLimitNs='{99, 1}', SampleNs='{2}')
SMALL_LAZY = consts(MaxKeyLevels=0, MaxItems=3, MaxTotal=3, ItemMax=1, Aggs=tla_set(['First']), VFs=tla_set(['ident']),
                    LimitNs='{99, 1}', WithFaults='TRUE')
SMALL_HOSTILE = consts(MaxKeyLevels=0, MaxItems=2, MaxTotal=2, ItemKind='"hostile"', Aggs=tla_set(['Count']),
                       VFs=tla_set(['ident']), LimitNs='{99}')
SMALL_ODD = consts(MaxKeyLevels=1, MaxItems=2, MaxTotal=2, ItemKind='"odd"', KFs=tla_set(['ident']), Aggs=tla_set(['Count']),
                   VFs=tla_set(['ident']), LimitNs='{99}')
SMALL_CAT = consts(MaxKeyLevels=1, MaxItems=2, MaxTotal=2, ItemKind='"str"', KFs=tla_set(['len']), Aggs=tla_set(['Count']),
                   VFs=tla_set(['ident', 'cats']), LimitNs='{99}')
SMALL_NESTED = consts(MaxKeyLevels=1, MaxItems=2, MaxTotal=3, ItemMax=1, MaxEvals=2, MaxDepth=2, KFs=tla_set(['mod2']),
                      Aggs=tla_set(['Max', 'Avg', 'Sum']), VFs=tla_set(['ident']), LimitNs='{99, 1}')


def model_level_jobs(tier):
    """TLC-only runs: (a) the full law is violated by the transcribed mechanism as long as one of the
    recorded defects is left unrepaired, and holds once all candidate repairs are applied;
    (b) mutants of the mechanism are rejected."""
    runs = []
    for leave_out, universe in (('stop', SMALL), ('skiptrace', SMALL_SKIP)):
        fixes = [f for f in ALL_FIXES if f != leave_out]
        runs.append(dict(label='law violated without repair "%s"' % leave_out, module='MC_C16', cfg='MC_C16_full',
                         constants=dict(universe, Fixes=tla_set(fixes)), expect='LawRefGroup', workers=2, heap='2g'))
    for name, universe in (('', SMALL), (' (ids)', SMALL_IDS), (' (skips)', SMALL_SKIP)):
        runs.append(dict(label='law holds with all repairs' + name, module='MC_C16', cfg='MC_C16_full',
                         constants=dict(universe, Fixes=tla_set(ALL_FIXES)), expect=None, workers=2, heap='2g'))
    # the mechanisms of glom before the two applied repairs: with every remaining candidate repair
    # switched on, the full law must still be violated by each of them (quick: the collision only)
    for m, uname in (HISTORIC if tier == 'thorough' else HISTORIC[:1]):
        runs.append(dict(label='historic mechanism %s rejected' % m, module='MC_C16', cfg='MC_C16_full',
                         constants=dict(globals()[uname], Fixes=tla_set(ALL_FIXES), Mutant='"%s"' % m),
                         expect='LawRefGroup', workers=2, heap='2g'))
    muts = [('carry', SMALL_NESTED), ('avgint', SMALL_NESTED), ('curagg', SMALL_INNER), ('minnum', SMALL_ORD)] \
        if tier == 'quick' else \
        [('carry', SMALL_NESTED), ('avgint', SMALL), ('limit1', SMALL), ('firstlast', SMALL), ('curagg', SMALL_INNER),
         ('minnum', SMALL_ORD), ('sampledrop', SMALL_CONS), ('list2swap', SMALL_CONS), ('limit1', SMALL_CONS),
         ('eager', SMALL_LAZY), ('eqskip', SMALL_HOSTILE), ('idkeys', SMALL_ODD), ('sumswap', SMALL_CAT)]
    for m, universe in muts:
        runs.append(dict(label='mutant %s rejected' % m, module='MC_C16', cfg='MC_C16',
                         constants=dict(universe, Mutant='"%s"' % m), expect='any', workers=2, heap='2g'))
    return runs


def judge_model_level(check, job, res):
    label, expect = job['label'], job['expect']
    if expect is None:
        vlib.tlc_must_pass(res, label)
        check.add_tlc(res, 'MC_C16 %s' % label)
    elif res['violated'] is None or (expect != 'any' and res['violated'] != expect):
        raise vlib.MachineryError('%s: expected TLC to report %s violated, got %r\n%s'
                                  % (label, expect, res['violated'], '\n'.join(res['out'][-15:])))
    check.extra.setdefault('model_level', []).append(dict(run=label, violated=res['violated'], states=res['distinct']))


def main(tier, seed):
    check = vlib.Check(PROP, tier, seed)
    known = {}
    jobs = c16_dump.Jobs()
    try:
        todo = [dict(label=label, module='MC_C16', cfg='MC_C16', constants=cs, dump=True, coverage=(label == 'nested'),
                     workers=8 if label.startswith('flat') else 4, heap='6g') for label, cs in UNIVERSES[tier]]
        todo += model_level_jobs(tier)
        for job, res, path in jobs.run(todo, parallel=6):
            label = job['label']
            if not job.get('dump'):
                judge_model_level(check, job, res)
                continue
            vlib.tlc_must_pass(res, 'MC_C16 ' + label)
            check.add_tlc(res, 'MC_C16 %s' % label)
            if label == 'nested':
                cov = res.get('coverage') or {}
                for act in ('StartEval', 'FeedItem', 'EndEval'):
                    if not cov.get(act):
                        raise vlib.MachineryError('action %s never taken in universe %s (coverage %r)' % (act, label, cov))
            for r in c16_dump.map_dump(path, worker, keep=('spec', 'evals', 'hist')):
                check.cov['evaluations'] += r['calls']
                check.cov['distinct_nontrivial'] += r['nontrivial']
                check.validated(r['agree'])
                check.extra['unconstrained_results'] = check.extra.get('unconstrained_results', 0) + r['unconstrained']
                for s in r['samples']:
                    check.sample(dict(universe=label, **s))
                for b in r['bad']:
                    check.violation(b['case'], b['why'], matcher=match_finding)
                for fid, n in r['known'].items():
                    known[fid] = known.get(fid, 0) + n
    finally:
        jobs.close()
    # cases the workers pre-classified beyond the first three per chunk
    for fid, n in known.items():
        check.known_hits[fid] = check.known_hits.get(fid, 0) + n
    record(check, {'quick': 2500, 'thorough': 40000}[tier], seed)
    check.extra['universes'] = {label: cs for label, cs in UNIVERSES[tier]}
    check.assumptions += [
        'one key spec per dict level (the property speaks of nested {key_spec: ...} levels); Limit only at top level',
        'a SKIP-producing value function is not used in a bare-value leaf at top level (Group(f) would return the '
        'SKIP sentinel itself)',
        'the result for a bare aggregator / bare value that received no item is not constrained (Python references '
        'of first / max / min / mean are undefined on nothing; glom returns None, also for Sum / Count / Flatten / Merge)',
        'key / value functions come from a fixed library (T, T % 2, t // 2, constant, two SKIP-producing; T, T + 1, '
        'T * 10, SKIP-producing; Sum / Flatten / Merge may take a sub-spec that is itself a Group, over items [t, t + 10]); '
        'items are small ints (negative ones included) or id() of dict / list spec nodes; Avg compared as exact rational',
        'whether the loop asks a lazy source for one more item after the value that fills a top-level Limit(n) / First() is not '
        'constrained (a source failing exactly there is outside the law); objects with a hostile __eq__ are routed only by '
        't % 2, t // 2 or a constant key',
        'Sample(n) offered more than n values is random (only checked to be n of them, without key levels); a Limit '
        'between two key levels is outside the universe; the key-spec objects of different '
        'levels are distinct objects',
        'TLC, the Json community module and the codec are trusted']
    return check.finish(rule='TLC explores every (spec chain, action history) within the constants; every reachable '
                        'state is replayed (each prefix = calls on one re-used spec object in several forms); '
                        'evaluations = glom calls judged; non-trivial = state whose evaluations consumed >= 2 items '
                        'and whose reference is defined; distinct by TLC state',
                        exhaustive=True)


def replay(path):
    with open(path) as f:
        v = json.load(f)
    case = v['case']
    levels = case['spec']
    status = 0
    if case.get('hist'):
        for sp in (0, 1):
            rs = RealSpec(levels, sp)
            results = play_hist(rs, case['hist'])
            print('spelling %d: history %s ->' % (sp, case['hist']))
            for e in sorted(results):
                print('   evaluation %d observed %s' % (e, json.dumps(results[e][1])))
    if 'items' in case:
        for sp in (0, 1):
            rs = RealSpec(levels, sp)
            heap, cells, tgt = make_target(rs, case['items'], 'list')
            res, obs = observe(rs, lambda: glom.glom(tgt, rs.g))
            print('spelling %d: glom(%r, %r) -> %r' % (sp, [rs.feed(x) for x in case['items']], rs.g, res))
            print('   observed  %s' % json.dumps(obs))
            if 'pred' in case:
                print('   predicted %s' % json.dumps(case['pred']))
                if obs != case['pred']:
                    status = 1
    return status
