"""C19  The CLI prints what the library computes; default-format specs never execute.

spec -> code: TLC explores the machine of spec/GlomCli.tla over the configuration space of
spec/MC_C19.tla (channels x formats x flags x spec-text classes x library outcomes).  Every
terminal state (m.pc = "done") is one abstract invocation with the machine's prediction
(channel, parse route, format, indent, exit status, executed?, audit events) and the law's
verdict.  It is made concrete here (real argv, real files, real stdin; targets and literal
specs from pools, adversarial spec texts from a grammar, each with a planted side effect) and
run through glom.cli.main(argv) in-process (every state) and through real `python -m glom`
child processes (a stratified sample in the quick tier).  The printed term
Dumps(Glom(Load(fmt, Text(sel)), Spec(route, text)), indent) is evaluated with the real library
and the reference loaders by the harness.  An audit hook (c19_audit.py; in children through
c19_site/sitecustomize.py) records compile / exec / side-effect events caused by the spec text.

code -> spec: seeded random invocations (random JSON-like targets, literal specs derived from
them, non-literal / adversarial texts, random channels, formats and flags, including
conflicting ones) are run, classified back into the abstract configuration and recorded as
rows (cfg, library outcome per candidate (channel, route), audit events, exit status, stdout
class); spec/Trace_C19.tla steps the same machine through every row and evaluates the laws.
"""
import ast
import datetime
import hashlib
import io
import json
import math
import os
import random
import re
import shutil
import subprocess
import sys
import tempfile
from concurrent.futures import ThreadPoolExecutor

import glom
import glom.cli
import face

import c19_audit
import vlib

PROP = 'C19'
HERE = os.path.dirname(os.path.abspath(__file__))
SITE = os.path.join(HERE, 'c19_site')
REPO = os.environ.get('GLOM_REPO', '/repo')
DIR = '@DIR@'                 # placeholder for the per-run scratch directory
PARTS = ['f', 's', 't', 'l', 'r', 'p']
EXTS = ['.py', '.json', '.yml', '.toml', '.txt', '']     # file-name extensions (they never matter)

# ---------------------------------------------------------------------------------------
# reference semantics (what the documentation names): loaders, spec routes, printing
# ---------------------------------------------------------------------------------------
try:
    import tomllib as _toml
except ImportError:            # pragma: no cover
    import tomli as _toml
import yaml as _yaml

GLOM_NS = {}
exec('from glom import *', GLOM_NS)           # "the full power of python": python-full namespace


def ref_load(fmt, text):
    """the documented loader for a target format"""
    if fmt == 'json':
        return json.loads(text)
    if fmt == 'python':
        return ast.literal_eval(text)
    if fmt == 'yaml':
        return _yaml.safe_load(text)
    if fmt == 'toml':
        return _toml.loads(text)
    raise ValueError('no such format %r' % fmt)


_LOADED = {}


def ref_load_cached(fmt, text):
    """pool texts recur thousands of times; the loaded value is only read"""
    key = (fmt, text)
    if key not in _LOADED:
        if len(_LOADED) > 20000:
            _LOADED.clear()
        _LOADED[key] = ref_load(fmt, text)
    return _LOADED[key]


def spec_of(route, text):
    if route == 'ident':
        return glom.T
    if route == 'str':
        return text
    if route == 'lit':
        return ast.literal_eval(text)
    if route == 'json':
        return json.loads(text)
    if route == 'exec':
        return eval(text, dict(GLOM_NS))
    raise ValueError(route)


def lib_outcome(tval, route, text):
    """run the real library: ('ok', result) | ('glomerr', class name) | ('crash', repr)"""
    try:
        spec = spec_of(route, text)
    except Exception as e:
        return ('nospec', repr(e))
    try:
        return ('ok', glom.glom(tval, spec))
    except glom.GlomError as e:
        return ('glomerr', type(e).__name__)
    except Exception as e:
        return ('crash', repr(e))


def kind_of(outcome):
    if outcome[0] == 'glomerr':
        return 'glomerr'
    if outcome[0] != 'ok':
        return 'na'
    r = outcome[1]
    try:
        json.dumps(r, sort_keys=True)
    except (TypeError, ValueError):
        # json.dumps(result) is not defined: bytes / date / time are scalars for --scalar, the rest is not
        if isinstance(r, (bytes, datetime.date, datetime.time)):
            return 'xscalar'
        return 'xcoll'
    if isinstance(r, str):
        return 'str'
    if isinstance(r, bool):
        return 'other'
    if isinstance(r, int):
        return 'int'
    if isinstance(r, float):
        return 'float' if math.isfinite(r) else 'other'      # inf / nan: 'Infinity' or 'inf'?
    if isinstance(r, (list, dict, tuple)):
        return 'coll'
    return 'other'


def dumps(r, indent):
    """indent: None or int, as json.dumps takes it"""
    return json.dumps(r, indent=indent, sort_keys=True) + '\n'


def indent_of_flag(flag):
    """documented meaning of --indent: absent -> 2, 0 -> no pretty-printing, n -> n"""
    if flag == 'default':
        return 2
    return int(flag) or None


# ---------------------------------------------------------------------------------------
# rendering targets in the four formats
# ---------------------------------------------------------------------------------------
def toml_value(v):
    if isinstance(v, bool):
        return 'true' if v else 'false'
    if isinstance(v, int):
        return str(v)
    if isinstance(v, float):
        return repr(v)
    if isinstance(v, str):
        return json.dumps(v, ensure_ascii=False).replace('\x7f', '\\u007f')
    if isinstance(v, (datetime.date, datetime.time)):
        return v.isoformat()
    if isinstance(v, list):
        return '[' + ', '.join(toml_value(x) for x in v) + ']'
    if isinstance(v, dict):
        return '{' + ', '.join('%s = %s' % (json.dumps(k), toml_value(x)) for k, x in v.items()) + '}'
    raise ValueError('not TOML-representable: %r' % (v,))


def toml_dumps(t):
    if not isinstance(t, dict):
        raise ValueError('TOML document must be a table')
    return ''.join('%s = %s\n' % (json.dumps(k), toml_value(v)) for k, v in t.items())


_PLAIN_NUMBERISH = re.compile(r'-?(\d+(\.\d+)?[eE][-+]?\d+|NaN|Infinity)$')


def yaml_jsonish(t):
    """flow-style YAML that looks like JSON: string values that read as JSON numbers / NaN / Infinity
    but are plain *strings* for the YAML loader (1e3, NaN, -Infinity) are written bare"""
    if isinstance(t, dict):
        return '{' + ', '.join('%s: %s' % (json.dumps(k), yaml_jsonish(v)) for k, v in t.items()) + '}'
    if isinstance(t, (list, tuple)):
        return '[' + ', '.join(yaml_jsonish(v) for v in t) + ']'
    if isinstance(t, str) and _PLAIN_NUMBERISH.match(t) and _yaml.safe_load(t) == t:
        return t
    return json.dumps(t)


_REND = {}


def renderings(fmt, t):
    key = (fmt, repr(t))
    if key not in _REND:
        _REND[key] = _renderings(fmt, t)
    return _REND[key]


def same(a, b):
    """equal and of the same types throughout (0 / False / 0.0 and [] / () are different values)"""
    if type(a) is not type(b):
        return False
    if isinstance(a, dict):
        return len(a) == len(b) and all(k in b and same(k, [x for x in b if x == k][0]) and same(v, b[k])
                                        for k, v in a.items())
    if isinstance(a, (list, tuple)):
        return len(a) == len(b) and all(same(x, y) for x, y in zip(a, b))
    if isinstance(a, float):
        return a == b and math.copysign(1, a) == math.copysign(1, b)
    return a == b


DECOR = [' %s', '%s\n', '\n%s\n\n', '\t%s ', '\ufeff%s', '%s\r\n']     # blanks, newlines, a byte-order mark
TEXT_TARGETS = {}        # (fmt, repr(value)) -> texts written by hand (values no renderer produces)


def _renderings(fmt, t):
    """texts denoting t in format fmt (only those the reference loader maps back to t)"""
    out = []
    try:
        if fmt == 'json':
            out = [json.dumps(t), json.dumps(t, indent=2), json.dumps(t, separators=(',', ':')),
                   json.dumps(t, sort_keys=True, indent=1)]
        elif fmt == 'python':
            out = [repr(t)]
        elif fmt == 'yaml':
            if len(repr(t)) > 6000:
                return []                      # PyYAML is a slow pure-Python parser: big values go elsewhere
            out = [_yaml.safe_dump(t), _yaml.safe_dump(t, default_flow_style=True), json.dumps(t), yaml_jsonish(t)]
        elif fmt == 'toml':
            out = [toml_dumps(t)]
    except Exception:
        out = []
    out = list(TEXT_TARGETS.get((fmt, repr(t)), [])) + out
    if fmt == 'yaml' and t is None:
        out += ['  \n', '# only a comment\n', '~']
    if fmt == 'toml' and isinstance(t, dict) and not t:
        out += ['  \n', '# only a comment\n']
    out += [d % x for x in out[:2] for d in DECOR]
    good = []
    for x in out:
        try:
            if x and x not in good and same(ref_load(fmt, x), t):
                good.append(x)
        except Exception:
            pass
    return good


_DEEP = '[' * 3000 + ']' * 3000          # nesting beyond any recursion limit
_DEEPISH = '[' * 1500 + ']' * 1500       # the same for the pure-Python parsers (YAML, TOML)
MALFORMED = {
    'json': ['{"a": 1', "{'a': 1}", '{"a": 1,}', '[1, 2', 'nope', '{"a": tru}', '{"a": 1} x', _DEEP],
    'python': ['{"a": 1', 'dict(a=1)', '[x for x in (1, 2)]', '{"a": true}', '1 +',
               '__import__("os").getcwd()', '{"a": 1}.keys()',
               # these parse, but the value cannot be built (TypeError / RecursionError inside literal_eval)
               '{[1, 2]: 3}', '{"a": {{}}}', '{{1: 2}}', '{"k": [{(1, [2]): 3}]}', '[' + '-' * 3000 + '1]'],
    'yaml': ['{"a": {"b": "c"}', '[1, 2', 'a: b: c', '{{"a": {"b": "c"}}', 'a: [1\nb: 2', '"abc',
             '{[1, 2]: 3}', 'd: 2001-13-45', 'x: !!binary "a"', _DEEPISH],
    'toml': ['a = ', '{"a": 1}', 'a = 1\na = 2', '[a', 'a = [1, 2', 'just words', 'a = ' + _DEEPISH, 'd = 2001-13-45'],
}


def check_malformed():
    for fmt in MALFORMED:                      # blank / BOM-prefixed inputs, where the loader rejects them
        good = {'json': '{"a": 1}', 'python': "{'a': 1}", 'yaml': 'a: 1', 'toml': 'a = 1'}[fmt]
        for x in ['  \n', ' ', '\t', '\ufeff', '\ufeff' + good, '\ufeff\n' + good]:
            try:
                ref_load(fmt, x)
            except Exception:
                if x not in MALFORMED[fmt]:
                    MALFORMED[fmt].append(x)
    for fmt, texts in MALFORMED.items():
        for x in texts:
            try:
                ref_load(fmt, x)
            except Exception:
                continue
            raise vlib.MachineryError('pool text %r is not malformed %s' % (x, fmt))


# ---------------------------------------------------------------------------------------
# pools: JSON-representable targets, literal specs, non-literal texts
# ---------------------------------------------------------------------------------------
TARGETS = {
    'd1': {"z": 1, "a": {"b": "sea", "n": 5, "l": [{"x": 1, "y": "p"}, {"x": 2, "y": "q"}]},
           "c": "see", "d": [3, 1, 2], "e": {"k2": 2, "k1": 1}, "f": 0.5},
    'd2': {"a": {"b": "bee", "n": 7, "l": []}, "c": "café", "d": [10],
           "m": {"y": 0, "x": [1.5, True, None]}, "f": True},
    'd3': {"b": 2, "a": {"b": {"c": "deep"}, "n": -3, "l": [{"x": "s", "y": "t"}]}, "c": "x y", "d": [],
           "f": 2.25},
    'd4': {"a": {"b": "q\"uote'", "n": 0, "l": [{"x": 9, "y": "nine"}]}, "c": "", "d": [[1, 2], [3]],
           "f": 2.5, "t": True},
    'l1': [{"a": 1, "b": "u"}, {"a": 2, "b": "v"}],
    # strings that a JSON reader would take for numbers (exponent without a dot, NaN, Infinity)
    'y1': {"size": "1e3", "a": {"b": "1E5", "n": 5, "l": [{"x": "NaN", "y": "Infinity"}, {"x": "2e10", "y": "-Infinity"}]},
           "c": "-1e-3", "d": ["1e3", "NaN", "7e0"], "e": {"k2": "3e8", "k1": 1}, "f": 1.25},
    # falsy values everywhere a value flows, and as the whole target
    'z1': {"zero": 0, "empty": "", "elist": [], "edict": {}, "no": False, "nil": None, "fzero": 0.0,
           "a": {"b": "", "n": 0, "l": []}, "c": "", "d": [0, "", [], {}, False, None], "e": {}},
    'z0': 0, 'zs': "", 'zl': [], 'zd': {}, 'zf': False, 'zn': None, 'zt': True, 'zm': -5,
    # non-ASCII, astral, separators, control characters, long strings, keys that need escaping
    'u1': {"ключ": "значение", "with space": "sp ace", "quo\"te": "dq\"", "back\\slash": "b\\s", "new\nline": "l1\nl2",
           "tab\t": "\t", "": "empty key", "emoji": "😀 ok", "ls": "a\u2028b", "del": "\x7f", "--scalar": "opt", "-": "dash",
           "a": {"b": "é" * 3, "n": 7, "l": [{"x": "long", "y": "x" * 2000}]}, "c": "ü", "d": ["ß", "日本語"]},
    'lg': {"a": {"b": "long " * 20000, "n": 1, "l": [{"x": 1, "y": "é" * 30000}]}, "c": "x" * 100000, "d": list(range(3000))},
    'o1': "--scalar", 'o2': "-",
    's1': "just a string",
    'i1': 42,
    'f1': 2.5,
    # not JSON / TOML round-trippable: integer keys whose numeric and string orders differ, dicts
    # nested inside tuples (python-literal format; the int-keyed part also as YAML)
    'p1': {"k": {10: "ten", 9: "nine", 2: "two", 33: "tt"}, "t": ({"z": 1, "b": 2, "a": 3}, [{"y": 1, "x": 2}], 7),
           "a": {"b": "pea", "n": 11, "l": ({"y": "p", "x": 1}, {"y": "q", "x": 2})}, "c": "sea", "d": (3, 1, 2)},
    'p2': {100: {"q": 1, "p": 2}, 20: [3, 4], 3: "three"},
}
SPEC_VALUES = [
    'a', 'a.b', 'a.n', 'c', 'd', 'a.l', 'e', 'a.q', 'zz', 'd.0', 'a.l.0.y', 'a.b.c', 'm.x', 'f', 'a.l.0',
    'm.x.2', 'd.9', 'm.x.0', 'e.k1', 'b',
    # '*' / '**' wildcard segments (Path.from_text): select several values
    'a.l.*.y', 'a.l.*.x', 'd.*', 'e.*', '**.n', 'a.**.y', '*.b', 'a.l.*', '**.zz', 'a.l.*.zz', '*.a',
    'k', 't', 't.0', ('t',), {'kk': 'k', 'tt': 't'},
    # falsy results of every kind; keys that need escaping; numbers at the int / float boundary;
    # results json.dumps cannot serialise
    '', 'zero', 'empty', 'elist', 'edict', 'no', 'nil', 'fzero', 'd.3', 'd.5', {'z': 'zero', 'e': 'empty', 'n': 'nil', 'f': 'no'},
    ('a', 'l'), ('elist', ['x']), {'only': 'edict'},
    'ключ', 'with space', 'emoji', 'ls', 'a.l.0.y', {'ключ': 'ключ', 'with space': 'with space', 'quo"te': 'emoji'},
    'big', 'negz', 'huge', 'tiny', 'i64', 'fmax', {'b': 'big', 'h': 'huge', 'z': 'negz'},
    's', 'by', 'dt', 'tm', 'dtm', {'when': 'dt'}, ('nest', ['dt']), 'nest',
    # dict specs with integer keys (numeric order differs from string order), unsorted insertion order
    {10: 'a.b', 9: 'c', 2: 'a.n'}, {'o': {100: 'c', 20: 'c', 3: 'd'}}, ('a', {10: 'b', 9: 'n'}), {10: 'zz', 9: 'c'},
    {33: 'a.l', 4: ('a', 'n')},
    {'x': 'a.b', 'w': 'c'}, {'k': {'inner': 'a.n'}, 'j': 'd'}, {'x': 'zz'}, {}, {'only': 'a.l'},
    ('a.l', ['y']), ('a.l', [{'p': 'x'}]), ['a'], ['b'], ('a', 'b'), ('a', 'n'), ('a', 'l', [('x',)]),
    {'r': ('a.l', [{'xx': 'x', 'yy': ('y',)}])}, ('d', ['zz']), [{'q': 'a'}], ('a', 'q'), ('f',), (),
    ('a', {'bb': 'b', 'nn': 'n'}), {'deep': {'er': {'est': ('a', 'b')}}}, ['a.b'], [],
]
TEXPR = ["T['a']['b']", "T['a']['n']", "T['a']", "T['q']", "T['f']", "T['d'][0]", "Path('a', 'b')",
         "Coalesce('zz', 'a.b')", "Spec('a.n')", "T",
         "(T['a'], T['b'])", "(T['a'], T['n'])", "{'x': T['c']}", "(T['a'], T['zz'])", "(T['f'],)",
         "(T,)", "{'x': T}", "[T]", "(Coalesce('zz', 'a'), 'n')", "{'v': Val(3)}", "('a', T['l'], [T['x']])"]
BBAD = ['{"a": ', "['a', ", '("a"', "'abc", '{"a": "b"]', '[1, 2))', '"unterminated']
BNAME = ['[spam]', "{'x': eggs.ham}", '(spam, eggs)', '[spam.eggs for spam in ham]', '"a" + spam', "{'a': spam}"]

EFFECTS = [
    "__import__('os').system('touch %s')",
    "open('%s', 'w')",
    "__import__('os').mkdir('%s')",
    "__import__('pathlib').Path('%s').touch()",
    "__import__('subprocess').call(['touch', '%s'])",
    "getattr(__import__('os'), 'sys' + 'tem')('touch %s')",
    "eval(\"open('%s', 'a')\")",
    "exec(\"import os; os.mkdir('%s')\")",
    "[].__class__.__mro__[-1].__subclasses__() and __import__('os').system('touch %s')",
    "__builtins__['open']('%s', 'w')",
    "__import__('io').open('%s', 'x')",
    "__import__('os').symlink('nowhere', '%s')",
]
# (template, fires when the expression is evaluated?)
WRAPPERS = [
    ("%s", True), ("[%s]", True), ("(%s,)", True), ("{'k': %s}", True), ("{%s: 'v'}", True),
    ("(%s).__class__", True), ("%s.__class__.__name__", True), ("[(%s).__doc__]", True),
    ("(lambda: %s)()", True), ("[(lambda: %s)()]", True), ("(lambda x=%s: x)", True),
    ("lambda t: %s", False), ("[lambda t: %s]", False), ("{'k': lambda t: %s}", False),
    ("[%s for _ in (1,)]", True), ("{k: %s for k in 'a'}", True), ("{%s for _ in 'a'}", True),
    ("(%s for _ in (1,))", False), ("[x for x in (1,) if %s or 1]", True),
    ("f'''{%s}'''", True), ("'a' + str(%s)", True), ("'%%s' %% (%s,)", True), ("\"x\".join([str(%s)])", True),
    ("'a' if %s else 'b'", True), ("[(x := %s)]", True), ("[1 if %s else 2]", True), ("[%s][0]", True),
    ("[*[%s]]", True), ("{**{'a': %s}}", True), ("(1, %s)[1:]", True), ("T[%s]", True),
    ("{'a': 'a.b'} if not %s else {}", True), ("['a', %s, 'b']", True), ("('a', [%s])", True),
    ("{'x': 'a.b', 'y': [%s]}", True), ("\"a.b\" and %s", True), ("'a.b'[:0] or %s", True),
]


def lead_of(text):
    if not text:
        return 'none'
    if text[0] in '"\'':
        return 'quote'
    if text[0] in '[{(':
        return 'bracket'
    return 'other'


def classify_text(text, token=None, benign=True):
    """abstract class of a spec text: the attributes GlomCli dispatches on.  Returns None for
    texts outside the universe (literals that are not str/dict/list/tuple specs)."""
    lead = lead_of(text)
    adv = bool(token) and token in text
    pylit = js = syntax = evalok = False
    if text:
        try:
            v = ast.literal_eval(text)
            if not isinstance(v, (str, dict, list, tuple)) or lead == 'other':
                return None
            pylit = True
        except Exception:
            pass
        try:
            v = json.loads(text)
            if not isinstance(v, (str, dict, list)) or lead == 'other':
                return None
            js = True
        except Exception:
            pass
        try:
            compile(text, '<c19-classify>', 'eval')
            syntax = True
        except Exception:
            pass
        if adv:
            evalok = True              # never evaluated by the harness; value unconstrained
        elif syntax and benign:
            try:
                eval(text, dict(GLOM_NS))
                evalok = True
            except Exception:
                pass
    return dict(lead=lead, pylit=pylit, json=js, syntax=syntax, evalok=evalok, adv=adv)


CLASS_ATTRS = {   # id -> (lead, pylit, json, syntax, evalok, adv); must equal MC_C19!AllTextClasses
    'qstr1': ('quote', True, False, True, True, False), 'qstr2': ('quote', True, True, True, True, False),
    'blit': ('bracket', True, False, True, True, False), 'bboth': ('bracket', True, True, True, True, False),
    'bare': ('other', False, False, True, False, False), 'baresx': ('other', False, False, False, False, False),
    'bbad': ('bracket', False, False, False, False, False), 'bname': ('bracket', False, False, True, False, False),
    'texpo': ('other', False, False, True, True, False), 'texpb': ('bracket', False, False, True, True, False),
    'advb': ('bracket', False, False, True, True, True), 'advq': ('quote', False, False, True, True, True),
    'advo': ('other', False, False, True, True, True),
}


def class_id(attrs):
    if attrs is None:
        return None
    if attrs['lead'] == 'none':
        return 'empty'
    key = (attrs['lead'], attrs['pylit'], attrs['json'], attrs['syntax'], attrs['evalok'], attrs['adv'])
    for cid, v in CLASS_ATTRS.items():
        if v == key:
            return cid
    if attrs['lead'] == 'quote' and not attrs['pylit'] and not attrs['adv']:
        return None
    return 'rec'


def _text_target(name, texts):
    """a target given as text in some formats; its value is what the reference loader makes of it"""
    value = None
    for fmt, text in texts.items():
        v = ref_load(fmt, text)
        if value is None:
            value = v
        if same(v, value):
            TEXT_TARGETS.setdefault((fmt, repr(value)), []).append(text)
    TARGETS[name] = value


_NUMS = ('{"big": 1e400, "negbig": -1e400, "negz": -0.0, "huge": 123456789012345678901234567890, "tiny": 1e-400, '
         '"i64": 9223372036854775808, "fmax": 1.7976931348623157e308, "a": {"b": "bee", "n": -0.0, "l": []}, "c": "see", "d": [1e400]}')
_text_target('n1', {'json': _NUMS, 'python': _NUMS})
_text_target('xp', {'python': '{"s": {1, 2}, "by": b"by\\x00tes", "nest": [{"dt": b"x"}], "a": {"b": "bee", "n": 3, "l": [{"x": {3}, "y": "p"}]}, '
                              '"c": "see", "d": [1], "dt": b"", "tm": {()}}'})
_text_target('xy', {'yaml': '{"dt": 2001-02-03, "dtm": 2001-02-03 04:05:06, "by": !!binary "YWJj", "s": !!set {1, 2}, '
                            '"nest": [{"dt": 2020-01-01}], "a": {"b": "bee", "n": 3, "l": []}, "c": "see", "d": [1]}'})
_text_target('xt', {'toml': 'dt = 2001-02-03\ntm = 07:32:00\ndtm = 2001-02-03T04:05:06Z\nc = "see"\nd = [1]\n'
                            'nest = [{dt = 2020-01-01}]\n[a]\nb = "bee"\nn = 3\nl = []\n'})

_POOLS = None


def pools():
    """text pools per class id (non-adversarial), checked against the class table"""
    global _POOLS
    if _POOLS is not None:
        return _POOLS
    cand = []
    for v in SPEC_VALUES:
        cand.append(repr(v))
        if isinstance(v, str):
            cand.append(v)
            cand.append(json.dumps(v))
        else:
            try:
                if not _has_tuple(v):
                    cand += [json.dumps(v), json.dumps(v, indent=1)]
            except TypeError:
                pass
    cand += TEXPR + BBAD + BNAME
    cand += [' ', ' a', 'a ', '\ta.b', '\ufeffa', '\ufeff"a.b"', '\ufeff{"x": "a"}', 'a\u2028b', 'with space', '😀']
    p = {}
    for text in cand:
        if not text or text.startswith('-'):
            continue
        cid = class_id(classify_text(text))
        if cid in CLASS_ATTRS and text not in p.setdefault(cid, []):
            p[cid].append(text)
    for cid in CLASS_ATTRS:
        if not cid.startswith('adv') and not p.get(cid):
            raise vlib.MachineryError('empty text pool for class %s' % cid)
    _POOLS = p
    return p


def _has_tuple(v):
    if isinstance(v, tuple):
        return True
    if isinstance(v, dict):
        return any(_has_tuple(x) for x in v.values())
    if isinstance(v, list):
        return any(_has_tuple(x) for x in v)
    return False


def adv_text(rng, cid, token, eager_only):
    """an adversarial text of class cid from the grammar; its side effect creates DIR/token"""
    want = {'advo': 'other', 'advq': 'quote', 'advb': 'bracket'}[cid]
    marker = DIR + '/' + token
    for _ in range(200):
        eff = rng.choice(EFFECTS) % marker
        tmpl, eager = rng.choice(WRAPPERS)
        if eager_only and not eager:
            continue
        if ' and ' in eff and not tmpl.startswith('%s'):
            eff = '(' + eff + ')'           # keep the effect out of the wrapper's short-circuits
        text = tmpl % eff
        if lead_of(text) != want or class_id(classify_text(text, token)) != cid:
            continue
        return text, eager
    raise vlib.MachineryError('no adversarial text for %s' % cid)


_KIND = {}


def _kind_column(tn):
    tv = dict(TARGETS, emptymap={})
    return {k: v for k, v in _kind_rows({tn: tv[tn]}).items()}


def kind_table():
    """(target name | 'emptymap', route, text) -> result kind, for the non-adversarial pools"""
    if _KIND:
        return _KIND
    pools()
    import multiprocessing as mp
    with mp.get_context('fork').Pool(vlib.NCPU) as pool:
        for col in pool.map(_kind_column, list(TARGETS) + ['emptymap'], chunksize=1):
            _KIND.update(col)
    return _KIND


def _kind_rows(tv):
    _KIND = {}
    for cid, texts in pools().items():
        attrs = CLASS_ATTRS[cid]
        for text in texts:
            routes = ['str'] if attrs[0] == 'other' else []
            if attrs[1]:
                routes += ['lit', 'exec']
            if attrs[2]:
                routes.append('json')
            if attrs[4] and not attrs[1]:
                routes.append('exec')
            for route in routes:
                for tn, t in tv.items():
                    _KIND[(tn, route, text)] = kind_of(lib_outcome(t, route, text))
    for tn, t in tv.items():
        _KIND[(tn, 'ident', '')] = kind_of(lib_outcome(t, 'ident', ''))
    return _KIND


_TOK_N = [0]


def new_token(rng):
    _TOK_N[0] += 1
    return 'c19mk%08x%04x' % (rng.getrandbits(32), _TOK_N[0] & 0xffff)


# ---------------------------------------------------------------------------------------
# running the real command line
# ---------------------------------------------------------------------------------------
def materialize(case, d):
    """write the files of a case under directory d; return (args, stdin text, spec text)"""
    sub = lambda s: s.replace(DIR, d)
    for name, content in case['files'].items():
        with open(os.path.join(d, name), 'w', encoding='utf-8') as f:
            f.write(sub(content))
    return [sub(a) for a in case['args']], sub(case['stdin']), sub(case['spec_text'])


def _finish_obs(exit_, out, err, events, d, token):
    kinds = []
    for e in events:                    # nested eval / exec inside the spec text repeat events:
        if e[0] not in kinds:           # keep the first occurrence of each kind
            kinds.append(e[0])
    marker = bool(token) and os.path.lexists(os.path.join(d, token))
    if marker and 'effect' not in kinds:
        kinds.append('effect')
    return dict(exit=exit_, stdout=out, stderr=err[-600:], events=kinds, marker=marker,
                err='text' if err.strip() else 'empty')


def run_inproc(case, d):
    args, stdin_text, spec_text = materialize(case, d)
    old = sys.stdin, sys.stdout, sys.stderr
    so, se = io.StringIO(), io.StringIO()
    sys.stdin, sys.stdout, sys.stderr = io.StringIO(stdin_text), so, se
    c19_audit.install()
    c19_audit.arm(spec_text, case['token'])
    try:
        try:
            rc = glom.cli.main(['glom'] + args)
            ex = str(rc) if rc in (0, 1) else 'other'
        except face.CommandLineError:
            ex = 'usage'
        except SystemExit:
            ex = 'other'
        except Exception as e:
            ex = 'crash'
            se.write('Traceback (most recent call last): %r' % (e,))
    finally:
        events = c19_audit.disarm()
        sys.stdin, sys.stdout, sys.stderr = old
    return dict(_finish_obs(ex, so.getvalue(), se.getvalue(), events, d, case['token']), rc='-')


def run_subproc(case, d):
    args, stdin_text, spec_text = materialize(case, d)
    log = os.path.join(d, 'audit.log')
    env = {'PATH': os.environ.get('PATH', '/usr/bin:/bin'), 'HOME': d, 'LANG': 'C.UTF-8',
           'PYTHONPATH': SITE + os.pathsep + REPO, 'PYTHONIOENCODING': 'utf-8', 'PYTHONHASHSEED': '0',
           'PYTHONDONTWRITEBYTECODE': '1', 'C19_AUDIT_LOG': log, 'C19_TOKEN': case['token'],
           'C19_SPEC': spec_text}
    try:
        p = subprocess.run([sys.executable, '-m', 'glom'] + args, input=stdin_text.encode('utf-8'),
                           capture_output=True, env=env, cwd=d, timeout=120)
    except subprocess.TimeoutExpired:
        raise vlib.MachineryError('child timed out: %r' % (args,))
    out, err = p.stdout.decode('utf-8', 'replace'), p.stderr.decode('utf-8', 'replace')
    # exit class of a child: a usage error is a non-zero status without a traceback and without
    # anything on stdout (face writes "error: ..." to stderr); a GlomError report is status 1 with
    # its message on stdout
    if p.returncode == 0:
        ex = '0'
    elif 'Traceback (most recent call last)' in err:
        ex = 'crash'
    elif out == '':
        ex = 'usage'
    elif p.returncode == 1:
        ex = '1'
    else:
        ex = 'other'
    events = []
    if os.path.exists(log):
        with open(log, encoding='utf-8') as f:
            events = [line.rstrip('\n').split('\t', 1) for line in f if line.strip()]
    else:
        raise vlib.MachineryError('child wrote no audit log (sitecustomize not loaded?): %s' % err[-300:])
    return dict(_finish_obs(ex, out, err, events, d, case['token']),
                rc=str(p.returncode) if p.returncode in (0, 1) else 'other')


RUNNERS = {'inproc': run_inproc, 'subproc': run_subproc}


def _wipe(path):
    try:
        if os.path.islink(path) or not os.path.isdir(path):
            os.unlink(path)
        else:
            shutil.rmtree(path, ignore_errors=True)
    except OSError:
        pass


def run_case(case, mode, base):
    if mode == 'inproc':
        # one directory per worker, emptied after every run (directory churn is slow on a busy box)
        d = os.path.join(base, 'inproc')
        os.makedirs(d, exist_ok=True)
        try:
            return run_inproc(case, d)
        finally:
            for name in os.listdir(d):
                _wipe(os.path.join(d, name))
    d = tempfile.mkdtemp(prefix='case_', dir=base)
    try:
        return RUNNERS[mode](case, d)
    finally:
        shutil.rmtree(d, ignore_errors=True)


# ---------------------------------------------------------------------------------------
# spec -> code: make a TLC terminal state concrete
# ---------------------------------------------------------------------------------------
BAD_SFMT = ['lol', 'Python', 'py', 'python_full', 'yaml']
BAD_TFMT = ['lol', 'JSON', 'xml', 'ini', 'python-full']
ALL_SFMT = ['default', 'python', 'json', 'python-full', 'bad']
ALL_TFMT = ['default', 'json', 'python', 'yaml', 'toml', 'bad']
norm_s = lambda f: 'python' if f == 'default' else f
norm_t = lambda f: 'json' if f == 'default' else f


def txt_record(cid):
    if cid == 'empty':
        return dict(id='empty', lead='none', pylit=False, json=False, syntax=False, evalok=False, adv=False)
    a = CLASS_ATTRS[cid]
    return dict(id=cid, lead=a[0], pylit=a[1], json=a[2], syntax=a[3], evalok=a[4], adv=a[5])


def pick_ext(v, rng):
    """'any' / '-' : the specification does not care, draw one"""
    return v if v in EXTS else rng.choice(EXTS)


def fill_unknown(cfg, known, rng):
    """parts of the configuration the machine never looked at: anything goes"""
    cfg = json.loads(json.dumps(cfg))
    if 's' not in known:
        arg = rng.choice(['none', 'text', 'text', 'empty'])
        file = rng.choice(['none', 'none', 'ok', 'unreadable', 'dash'])
        cid = rng.choice([c for c in CLASS_ATTRS if not c.startswith('adv')]) if (arg == 'text' or file == 'ok') else 'empty'
        cfg['s'] = dict(arg=arg, file=file, ext='any', fmt=rng.choice(ALL_SFMT), txt=txt_record(cid))
    if 't' not in known:
        cfg['t'] = dict(arg=rng.choice(['none', 'text', 'dash', 'empty']) if cfg['s']['arg'] != 'none' else 'none',
                        file=rng.choice(['none', 'none', 'ok', 'okempty', 'unreadable', 'dash']), ext='any',
                        stdin=rng.choice(['empty', 'data']))
    if 'l' not in known:
        cfg['l'] = dict(fmt=rng.choice(ALL_TFMT), txt=rng.choice(['good', 'good', 'malformed']))
    if 'r' not in known:
        cfg['r'] = dict(res=cfg['r']['res'], dbg=rng.choice(['off', 'off', 'off', 'debug', 'inspect']))
    if 'p' not in known:
        cfg['p'] = dict(indent=rng.choice(['default', '0', '1', '4']), scalar=rng.choice(['on', 'off']))
    return cfg


def concretize(st, rng):
    """abstract terminal state -> concrete case, or (None, reason) when no pool entry realises it"""
    m = st['m']
    known = m['known']
    cfg = fill_unknown(m['cfg'], known, rng)
    s, t, l, p = cfg['s'], cfg['t'], cfg['l'], cfg['p']
    kt = kind_table()
    token = ''
    # ---- spec text -------------------------------------------------------------------
    cid = s['txt']['id']
    route = m['route']
    sfmt, tfmt = norm_s(s['fmt']), norm_t(l['fmt'])
    tgt_key = None                          # name of the target the chosen channel carries
    reached_run = 'r' in known
    want = cfg['r']['res'] if reached_run else None
    channel_fmt = tfmt if tfmt != 'bad' else 'json'
    selected = m['sel']                     # channel the machine reads ("none" if not reached)

    def targets_for(chan):
        names = []
        for tn, tv in TARGETS.items():
            rs = renderings(channel_fmt, tv)
            if chan == 'arg':
                rs = [x for x in rs if x != '-' and len(x) < 60000]     # argv strings are limited to 128 KiB
            if rs:
                names.append(tn)
        return names

    lazy_ok = sfmt != 'python-full'
    if cid == 'empty':
        spec_text = ''
    elif cid.startswith('adv'):
        token = new_token(rng)
        spec_text, _eager = adv_text(rng, cid, token, eager_only=not lazy_ok)
    else:
        spec_text = None
    tname = None
    if reached_run:
        tkey_list = ['emptymap'] if m['tgt'] == 'emptymap' else targets_for(selected)
        if cid == 'empty':
            cands = [(tn, '') for tn in tkey_list if kt[(tn, 'ident', '')] == want]
        elif cid.startswith('adv'):
            cands = []
            for tn in tkey_list:
                tv = {} if tn == 'emptymap' else TARGETS[tn]
                if kind_of(lib_outcome(tv, route, spec_text)) == want:
                    cands.append((tn, spec_text))
        else:
            cands = [(tn, x) for tn in tkey_list for x in pools()[cid] if kt.get((tn, route, x)) == want]
        if not cands:
            return None, 'no (target, spec) pair in the pools gives %s via %s/%s' % (want, route, cid)
        tname, spec_text = rng.choice(cands)
        if tname == 'emptymap':
            tname = None
    elif spec_text is None:
        spec_text = rng.choice(pools()[cid])
    # ---- channel texts -----------------------------------------------------------------
    chans = []
    if t['arg'] == 'text':
        chans.append('arg')
    if t['file'] == 'ok':
        chans.append('file')
    if t['stdin'] == 'data':
        chans.append('stdin')
    texts = {}
    bad_pool = list(MALFORMED[channel_fmt])
    rng.shuffle(bad_pool)
    used = set()
    for ch in chans:
        if l['txt'] == 'malformed':
            texts[ch] = bad_pool.pop()
            continue
        names = targets_for(ch)
        if ch == selected and tname is not None:
            tn = tname
        else:
            others = [n for n in names if n != tname and n not in used] or names
            tn = rng.choice(others)
        used.add(tn)
        rs = renderings(channel_fmt, TARGETS[tn])
        if ch == 'arg':
            rs = [x for x in rs if x != '-' and len(x) < 60000]     # argv strings are limited to 128 KiB
        texts[ch] = rng.choice(rs)
    # ---- argv ----------------------------------------------------------------------------
    flags = []
    files = {}
    if s['fmt'] != 'default':
        flags.append(['--spec-format', rng.choice(BAD_SFMT) if s['fmt'] == 'bad' else s['fmt']])
    if l['fmt'] != 'default':
        flags.append(['--target-format', rng.choice(BAD_TFMT) if l['fmt'] == 'bad' else l['fmt']])
    if p['indent'] != 'default':
        flags.append(['--indent', p['indent']])
    if p['scalar'] == 'on':
        flags.append(['--scalar'])
    if cfg['r']['dbg'] == 'debug':
        flags.append(['--debug'])
    elif cfg['r']['dbg'] == 'inspect':
        flags.append(['--inspect'])
    eff_spec = spec_text                   # the text the CLI gets to see
    sname, tname_ = 'spec' + pick_ext(s['ext'], rng), 'target' + pick_ext(t['ext'], rng)
    if s['file'] == 'ok':
        if s['arg'] == 'text':
            files[sname] = rng.choice(pools()['blit'])
        else:
            nl = '\n' if (spec_text and lead_of(spec_text) != 'other' and rng.random() < 0.5) else ''
            files[sname] = spec_text + nl
            eff_spec = spec_text + nl
        flags.append(['--spec-file', DIR + '/' + sname])
    elif s['file'] == 'unreadable':
        flags.append(['--spec-file', rng.choice([DIR + '/no-such-' + sname, DIR])])
    elif s['file'] == 'dash':
        flags.append(['--spec-file', '-'])
    if t['file'] in ('ok', 'okempty'):
        files[tname_] = texts['file'] if t['file'] == 'ok' else ''
        flags.append(['--target-file', DIR + '/' + tname_])
    elif t['file'] == 'unreadable':
        flags.append(['--target-file', rng.choice([DIR + '/no-such-' + tname_, DIR])])
    elif t['file'] == 'dash':
        flags.append(['--target-file', '-'])
    rng.shuffle(flags)
    pos = []
    if s['arg'] == 'text':
        pos.append(spec_text)
    elif s['arg'] == 'empty':
        pos.append('')
    if t['arg'] == 'text':
        pos.append(texts['arg'])
    elif t['arg'] == 'dash':
        pos.append('-')
    elif t['arg'] == 'empty':
        pos.append('')
    flags, pos = break_argv(cfg['f']['argv'], flags, pos, rng)
    args = [x for f in flags for x in f]
    args = args + pos                     # face stops reading flags at the first positional
    case = dict(args=args, stdin=texts.get('stdin', ''), files=files, spec_text=eff_spec, token=token,
                texts=texts, cfg=cfg, indent=p['indent'])
    return case, None


def break_argv(kind, flags, pos, rng):
    """violate the documented command-line syntax in the given way (kind 'ok': only vary the surface:
    --flag=value for --flag value, a trailing '--')"""
    if kind == 'ok':
        flags = [[f[0] + '=' + f[1]] if len(f) == 2 and rng.random() < 0.2 else f for f in flags]
        if pos and rng.random() < 0.04:
            pos = pos + ['--']                 # nothing follows the separator
    elif kind == 'flagafter':                  # options after the positionals are positionals
        pos = (pos or ['a']) + rng.choice([['--scalar', '--indent', '0'], ['--indent', '4'], ['--scalar', '--scalar']])
        if len(pos) < 3:
            pos.append('--target-format')
    elif kind == 'dupflag':
        two = [f for f in flags if len(f) == 2]
        if two and rng.random() < 0.6:
            f = rng.choice(two)
            flags = flags + [[f[0], f[1]]]
        elif ['--scalar'] in flags:
            flags = flags + [['--scalar']]
        else:
            flags = [f for f in flags if f[0] != '--indent'] + [['--indent', '0'], ['--indent', '4']]
        rng.shuffle(flags)
    elif kind == 'dashdash':                   # '--' followed by positionals
        pos = ['--'] + (pos or ['a'])
    elif kind == 'badindent':
        flags = [f for f in flags if f[0] != '--indent'] + [['--indent', rng.choice(['x', 'two', '1.5'])]]
        rng.shuffle(flags)
    elif kind == 'toomany':
        pos = (pos + ['a', '{"a": 1}'])[:2] + [rng.choice(['extra', '{}', 'a'])]
    elif kind == 'unknownflag':
        flags = flags + [rng.choice([['--no-such-flag'], ['--spec-fmt', 'json'], ['--target', '{}']])]
        rng.shuffle(flags)
    return flags, pos


def eval_term(o, case, d_sub=None):
    """evaluate an output term of the specification with the real library / reference loaders.
    Returns ('text', exact stdout) | ('err', GlomError class name) | ('none',) | ('any',)"""
    if o['k'] == 'none':
        return ('text', '')
    if o['k'] == 'unspec':
        return ('any',)
    sub = (lambda x: x.replace(DIR, d_sub)) if d_sub else (lambda x: x)
    tval = {} if o['sel'] == 'emptymap' else ref_load_cached(o['fmt'], case['texts'][o['sel']])
    oc = lib_outcome(tval, o['route'], sub(case['spec_text']))
    if oc[0] == 'glomerr':
        return ('err', oc[1]) if o['k'] == 'errmsg' else ('bad', 'library raises %s' % oc[1])
    if oc[0] != 'ok':
        return ('bad', 'reference evaluation failed: %s' % (oc,))
    if o['k'] == 'errmsg':
        return ('bad', 'library succeeds')
    if o['k'] == 'raw':
        return ('text', str(oc[1]))
    ind = None if o['indent'] == 'none' else int(o['indent'])
    return ('text', dumps(oc[1], ind))


def out_matches(exp, obs):
    if exp[0] == 'any':
        return True
    if exp[0] == 'text':
        return obs['stdout'] == exp[1]
    if exp[0] == 'err':
        return exp[1] in (obs['stdout'] + obs['stderr'])
    return False


def ambiguous_events(case):
    """(compile?, exec?) - audit events that cannot be attributed to the spec text: a target text equal to the
    spec text is itself parsed (ast.literal_eval of a python target compiles it), and under --debug / --inspect
    pdb reads standard input and runs its lines"""
    spec = case['spec_text'].strip()
    if not spec:
        spec = case['spec_text']
    same_text = lambda x: x == spec or x.strip() == spec or x.strip() == repr(case['spec_text'])
    amb_c = any(same_text(x) for x in case['texts'].values())
    amb_x = case['cfg']['r']['dbg'] != 'off' and any(same_text(line) for line in case['stdin'].splitlines() + [case['stdin']])
    return amb_c or amb_x, amb_x


def judge(st, case, obs):
    """compare one observed run with the specification: list of (level, why); level 'law' is a
    violation of the property, 'drift' a mismatch with the mechanism only, 'machinery' a broken check"""
    m = st['m']
    law = m['law']
    cfg = case['cfg']
    probs = []
    full = norm_s(cfg['s']['fmt']) == 'python-full'
    ev = obs['events']
    amb_c, amb_x = ambiguous_events(case)
    if amb_x:
        ev = [e for e in ev if e != 'exec' or 'exec' in m['evs']]
    if amb_c:
        ev = [e for e in ev if e != 'compile' or 'compile' in m['evs']]
    if not full and ('exec' in ev or 'effect' in ev or obs['marker']):
        probs.append(('law', 'spec text executed outside python-full: events %s marker=%s' % (ev, obs['marker'])))
    if full and cfg['s']['txt']['adv'] and m['executed'] and not ('exec' in ev and 'effect' in ev and obs['marker']):
        probs.append(('machinery', 'planted side effect not detected under python-full: events %s marker=%s'
                      % (ev, obs['marker'])))
    if law['k'] != 'unspecified':
        exp = eval_term(law['out'], case)
        if exp[0] == 'bad':
            probs.append(('machinery', 'law term not evaluable: %s' % exp[1]))
        else:
            if obs['exit'] != law['exit']:
                probs.append(('law', '%s: exit %s expected, %s observed' % (law['k'], law['exit'], obs['exit'])))
            elif not out_matches(exp, obs):
                probs.append(('law', '%s: stdout %r expected, %r observed' % (law['k'], exp[1:], obs['stdout'][:300])))
    if not probs:
        exp = eval_term(m['out'], case)
        if m['exit'] != 'unspec' and obs['exit'] != m['exit']:
            probs.append(('drift', 'exit %s predicted by the mechanism, %s observed' % (m['exit'], obs['exit'])))
        elif exp[0] == 'bad':
            probs.append(('machinery', 'mechanism term not evaluable: %s' % exp[1]))
        elif not out_matches(exp, obs):
            probs.append(('drift', 'stdout %r predicted, %r observed' % (exp[1:], obs['stdout'][:300])))
        elif ev != m['evs']:
            probs.append(('drift', 'audit events %s predicted, %s observed' % (m['evs'], ev)))
        elif m['rc'] != '-' and obs['rc'] != '-' and m['rc'] != obs['rc']:
            probs.append(('drift', 'process status %s predicted, %s observed' % (m['rc'], obs['rc'])))
        elif m['err'] != '-' and m['err'] != obs['err']:
            probs.append(('drift', 'stderr %s predicted, observed %r' % (m['err'], obs['stderr'][-200:])))
    return probs


def state_rng(st, seed):
    blob = json.dumps(st['m']['cfg'], sort_keys=True) + '|' + ','.join(st['m']['known']) + '|%d' % seed
    h = hashlib.blake2b(blob.encode(), digest_size=8).digest()
    return random.Random(int.from_bytes(h, 'big')), h


def signatures(st):
    """two coarse behaviour signatures: (spec action, spec-text class, final action) and
    (last three actions, target format)"""
    m = st['m']
    h = m['hist']
    return ('A:%s|%s|%s' % (h[0], m['cfg']['s']['txt']['id'], h[-1]),
            'B:' + '/'.join(h[-3:]) + '|' + (m['cfg']['l']['fmt'] if 'l' in m['known'] else '-'))


SUB_MOD = {'quick': 0, 'thorough': 48}    # thorough: every 48th state also as a child process
_TIER, _SEED = ['quick'], [0]


def slim(st):
    m = st['m']
    return {'m': {k: m[k] for k in ('cfg', 'known', 'route', 'executed', 'effect', 'evs', 'sel', 'tgt', 'out',
                                    'exit', 'rc', 'err', 'law', 'hist')}}


def replay_state(st, modes, base, seed, out):
    rng, h = state_rng(st, seed)
    case, why = concretize(st, rng)
    if case is None:
        out['unrealizable'] += 1
        return None
    for mode in modes:
        obs = run_case(case, mode, base)
        out['runs'] += 1
        for level, msg in judge(st, case, obs):
            rec = dict(why='%s [%s]' % (msg, mode),
                       case=dict(kind='state', state=slim(st), case=case, mode=mode, obs=obs, seed=seed))
            out[level].append(rec)
    return case


def worker(states):
    out = dict(runs=0, subruns=0, cases=0, nontrivial=0, unrealizable=0, law=[], drift=[], machinery=[], samples=[],
               sig_sub=set(), sig_first={}, agreed=0, actions={})
    base = tempfile.mkdtemp(prefix='glomverif_c19_')
    tier, seed = _TIER[0], _SEED[0]
    try:
        for st in states:
            m = st['m']
            if m['pc'] != 'done':
                continue
            out['cases'] += 1
            for a in m['hist']:
                out['actions'][a] = out['actions'].get(a, 0) + 1
            if len(m['known']) >= 3 or m['cfg']['s']['txt']['adv']:
                out['nontrivial'] += 1
            _rng, h = state_rng(st, seed)
            sigs = signatures(st)
            modes = ['inproc']
            if SUB_MOD[tier] and int.from_bytes(h, 'big') % SUB_MOD[tier] == 0:
                modes.append('subproc')
            before = len(out['law']) + len(out['drift']) + len(out['machinery'])
            case = replay_state(st, modes, base, seed, out)
            if case is None:
                continue
            if len(out['law']) + len(out['drift']) + len(out['machinery']) == before:
                out['agreed'] += 1
            if 'subproc' in modes:
                out['subruns'] += 1
                out['sig_sub'].update(sigs)
            else:
                for sig in sigs:
                    if sig not in out['sig_first']:
                        out['sig_first'][sig] = slim(st)
            if len(out['samples']) < 1 and len(m['hist']) >= 5:
                out['samples'].append(dict(kind='tlc-state', cfg=case['cfg'], hist=m['hist'], predicted_out=m['out'],
                                           predicted_exit=m['exit'], law=m['law']['k'], argv=case['args'],
                                           stdin=case['stdin'][:80]))
    finally:
        shutil.rmtree(base, ignore_errors=True)
    for k in ('law', 'drift', 'machinery'):
        out[k] = out[k][:20]
    return out


# ---------------------------------------------------------------------------------------
# code -> spec: random invocations recorded as rows
# ---------------------------------------------------------------------------------------
KEYS = ['a', 'b', 'c', 'd', 'e', 'k1', 'x', 'y', 'n', 'with space', 'quo"te', 'ключ', '--scalar', 'ta\tb']
WORDS = ['1e3', 'NaN', '-Infinity', '2E5', '', '', 'é😀', 'a\u2028b', 'x' * 5000, '\x7f', '--indent', '-', 'sea', 'bee', 'x y', 'café', 'q"uote', "it's", '0', 'nine', 'two\nlines']


INT_KEYS = [2, 9, 10, 33, 100, 4, 20]


def rand_value(rng, depth, toml=False, py=False):
    """py: python-literal format only - integer-keyed dicts (never mixed with string keys) and tuples"""
    r = rng.random()
    if depth > 0 and r < 0.06:
        return rng.choice([{}, []])                 # empty containers as ordinary values
    if depth > 0 and r < 0.45:
        if py and rng.random() < 0.25:
            return {k: rand_value(rng, depth - 1, toml, py) for k in rng.sample(INT_KEYS, rng.randint(2, 4))}
        return {k: rand_value(rng, depth - 1, toml, py) for k in rng.sample(KEYS, rng.randint(1, 4))}
    if depth > 0 and r < 0.65:
        items = [rand_value(rng, depth - 1, toml, py) for _ in range(rng.randint(0, 3))]
        return tuple(items) if py and rng.random() < 0.4 else items
    r = rng.random()
    if r < 0.4:
        return rng.choice(WORDS)
    if r < 0.7:
        return rng.choice([0, 0, rng.randint(-5, 99), 2 ** 63, -2 ** 70, 10 ** 30])
    if r < 0.8:
        return rng.choice([0.5, 2.25, -1.5, 0.0, -0.0, 1e22, 5e-324, 1.7976931348623157e308])
    if r < 0.9 or toml:
        return rng.choice([True, False])
    return None


def rand_path(rng, val, maxlen=4):
    segs, cur = [], val
    for _ in range(rng.randint(1, maxlen)):
        if isinstance(cur, dict) and cur:
            if not all(isinstance(k, str) for k in cur):
                break                       # integer keys are not addressable by a dotted path
            k = rng.choice(list(cur))
            segs.append(k)
            cur = cur[k]
        elif isinstance(cur, (list, tuple)) and cur:
            i = rng.randrange(len(cur))
            segs.append(str(i))
            cur = cur[i]
        else:
            break
    if rng.random() < 0.15 or not segs:
        segs.append(rng.choice(['zz', 'q', '7']))
        cur = None
    return segs, cur


def with_wildcards(rng, segs):
    """sometimes turn a path into a wildcard path: an index / key segment becomes '*', or the
    head of the path becomes '**' (the library decides what that selects)"""
    segs = list(segs)
    r = rng.random()
    if r < 0.12 and len(segs) >= 1:
        segs[rng.randrange(len(segs))] = '*'
    elif r < 0.18:
        segs = ['**', segs[-1]]
    elif r < 0.21 and len(segs) >= 2:
        segs = [segs[0], '**', segs[-1]]
    return segs


def rand_spec(rng, val, depth):
    r = rng.random()
    if depth <= 0 or r < 0.35:
        segs, _ = rand_path(rng, val)
        return '.'.join(with_wildcards(rng, segs))
    if r < 0.65:
        if rng.random() < 0.2:              # integer keys (never mixed with string keys)
            return {k: rand_spec(rng, val, depth - 1) for k in rng.sample(INT_KEYS, rng.randint(2, 3))}
        return {rng.choice(['p', 'q', 'r', 'zeta', 'alpha']) + str(i): rand_spec(rng, val, depth - 1)
                for i in range(rng.randint(1, 3))}
    if r < 0.9:
        segs, sub = rand_path(rng, val, 2)
        head = '.'.join(segs)
        if isinstance(sub, (list, tuple)) and sub and rng.random() < 0.7:
            return (head, [rand_spec(rng, sub[0], depth - 1)])
        if sub is None:
            return (head, 'zz')
        return (head, rand_spec(rng, sub, depth - 1))
    if isinstance(val, (list, tuple)) and val:
        return [rand_spec(rng, val[0], depth - 1)]
    return (rand_spec(rng, val, depth - 1),)


def rand_spec_text(rng, val, sfmt):
    """(text, token): mostly renderings of literal specs, sometimes non-literal / adversarial texts"""
    r = rng.random()
    if r < 0.12:
        token = new_token(rng)
        text, _ = adv_text(rng, rng.choice(['advo', 'advq', 'advb']), token, eager_only=(sfmt == 'python-full'))
        return text, token
    if r < 0.2:
        return rng.choice(BBAD + BNAME), ''
    if r < 0.3:
        return rng.choice(TEXPR), ''
    spec = rand_spec(rng, val, rng.randint(0, 3))
    forms = [repr(spec)]
    if isinstance(spec, str):
        forms += [spec, spec, json.dumps(spec)]
    elif not _has_tuple(spec):
        forms += [json.dumps(spec), json.dumps(spec, indent=2)]
        if sfmt == 'json':
            forms = forms[1:]
    text = rng.choice(forms)
    if text.startswith('-'):
        text = repr(spec)
    return text, ''


def rand_case(rng):
    """a random concrete invocation plus its abstract configuration (None if outside the universe)"""
    sfmt = rng.choice(['default'] * 5 + ['python', 'json', 'json', 'python-full', 'python-full', 'bad'])
    tfmt = rng.choice(['default'] * 3 + ['json', 'python', 'python', 'yaml', 'yaml', 'toml', 'toml', 'bad'])
    cf = norm_t(tfmt) if tfmt != 'bad' else 'json'
    malformed = rng.random() < 0.12
    top = rng.random()

    def fresh_target():
        for _ in range(50):
            if cf == 'toml' or top < 0.8:
                v = {k: rand_value(rng, rng.randint(0, 3), cf == 'toml', cf == 'python')
                     for k in rng.sample(KEYS, rng.randint(1, 5))}
            elif top < 0.9:
                v = [rand_value(rng, 2, False, cf == 'python') for _ in range(rng.randint(1, 3))]
            else:
                v = rand_value(rng, rng.choice([0, 0, 1]))      # any scalar, falsy ones included, or an empty container
            rs = renderings(cf, v)
            if rs:
                return v, rs
        raise vlib.MachineryError('cannot render a random target as %s' % cf)
    main_val, _ = fresh_target()
    spec_text, token = rand_spec_text(rng, main_val, norm_s(sfmt))
    # spec side
    r = rng.random()
    s_arg, s_file = ('text', 'none') if r < 0.62 else ('none', 'ok') if r < 0.8 else ('text', 'ok') if r < 0.84 else \
        ('none', 'unreadable') if r < 0.87 else ('none', 'dash') if r < 0.88 else ('empty', 'none') if r < 0.93 else \
        ('none', 'none') if r < 0.97 else ('empty', 'ok')
    # target side
    if s_arg == 'none':
        t_arg = 'none'
    else:
        t_arg = rng.choice(['text'] * 9 + ['none'] * 6 + ['dash'] * 3 + ['empty'])
    t_file = rng.choice(['none'] * 6 + ['ok', 'ok', 'okempty', 'unreadable', 'dash'])
    if t_arg != 'none' and rng.random() < 0.85:
        t_file = 'none'
    stdin = rng.choice(['data', 'data', 'empty'])
    bad_pool = list(MALFORMED[cf])
    rng.shuffle(bad_pool)
    texts = {}
    first = True
    for ch, present in (('arg', t_arg == 'text'), ('file', t_file == 'ok'), ('stdin', stdin == 'data')):
        if not present:
            continue
        if malformed:
            texts[ch] = bad_pool.pop()
            continue
        for _ in range(20):
            v, rs = (main_val, renderings(cf, main_val)) if first else fresh_target()
            if ch == 'arg':
                rs = [x for x in rs if x != '-' and len(x) < 60000]     # argv strings are limited to 128 KiB
            if rs:
                break
            first = False
        else:
            return None
        first = False
        texts[ch] = rng.choice(rs)
    indent = rng.choice(['default', 'default', '0', '0', '1', '2', '3', '4', '8', '-1', '-3', '40', '+2'])
    scalar = 'on' if rng.random() < 0.3 else 'off'
    flags, files = [], {}
    if sfmt != 'default':
        flags.append(['--spec-format', rng.choice(BAD_SFMT) if sfmt == 'bad' else sfmt])
    if tfmt != 'default':
        flags.append(['--target-format', rng.choice(BAD_TFMT) if tfmt == 'bad' else tfmt])
    if indent != 'default':
        flags.append(['--indent', indent])
    if scalar == 'on':
        flags.append(['--scalar'])
    r = rng.random()
    dbg = 'debug' if r < 0.08 else 'inspect' if r < 0.1 else 'off'
    if dbg != 'off':
        flags.append(['--' + dbg])
    r = rng.random()
    argv = 'ok' if r < 0.94 else rng.choice(['badindent', 'toomany', 'unknownflag', 'flagafter', 'dupflag', 'dashdash'])
    s_ext, t_ext = rng.choice(EXTS), rng.choice(EXTS)
    sname, tname = 'spec' + s_ext, 'target' + t_ext
    eff_spec = spec_text if s_arg == 'text' else ''
    if s_file == 'ok':
        if s_arg == 'text':
            files[sname] = "{'k': 'a'}"
        else:
            if rng.random() < 0.1:
                content = ''
            else:
                content = spec_text + ('\n' if lead_of(spec_text) != 'other' and rng.random() < 0.5 else '')
            files[sname] = content
            eff_spec = content
        flags.append(['--spec-file', DIR + '/' + sname])
    elif s_file == 'unreadable':
        flags.append(['--spec-file', rng.choice([DIR + '/no-such-' + sname, DIR])])
    elif s_file == 'dash':
        flags.append(['--spec-file', '-'])
    if s_arg != 'text' and s_file != 'ok':
        eff_spec = ''
    if token and token not in eff_spec and not (s_arg == 'text'):
        token = ''
    if t_file in ('ok', 'okempty'):
        files[tname] = texts.get('file', '')
        flags.append(['--target-file', DIR + '/' + tname])
    elif t_file == 'unreadable':
        flags.append(['--target-file', rng.choice([DIR + '/no-such-' + tname, DIR])])
    elif t_file == 'dash':
        flags.append(['--target-file', '-'])
    rng.shuffle(flags)
    pos = []
    if s_arg == 'text':
        pos.append(spec_text)
    elif s_arg == 'empty':
        pos.append('')
    if t_arg == 'text':
        pos.append(texts['arg'])
    elif t_arg == 'dash':
        pos.append('-')
    elif t_arg == 'empty':
        pos.append('')
    flags, pos = break_argv(argv, flags, pos, rng)
    args = [x for f in flags for x in f]
    args = args + pos                     # face stops reading flags at the first positional
    # abstract configuration: classified from the concrete pieces
    cls_text = spec_text if s_arg == 'text' else eff_spec
    attrs = classify_text(cls_text, token or None)
    if attrs is None:
        return None
    cid = class_id(attrs)
    if cid is None:
        return None
    cfg = dict(f=dict(argv=argv),
               s=dict(arg=s_arg, file=s_file, ext=s_ext if s_file == 'ok' else '-', fmt=sfmt, txt=dict(id=cid, **attrs)),
               t=dict(arg=t_arg, file=t_file, ext=t_ext if t_file in ('ok', 'okempty') else '-', stdin=stdin),
               l=dict(fmt=tfmt, txt='malformed' if (malformed and tfmt != 'bad') else 'good'),
               r=dict(dbg=dbg),
               p=dict(indent=indent, scalar=scalar))
    return dict(args=args, stdin=texts.get('stdin', ''), files=files, spec_text=eff_spec if s_arg != 'text' else spec_text,
                token=token, texts=texts, cfg=cfg, indent=indent)


def candidates(case, obs):
    """what the real library does for every (channel, route) the CLI could have used, and
    whether the observed stdout is that result printed the documented way"""
    cfg = case['cfg']
    attrs = cfg['s']['txt']
    text = case['spec_text']
    if cfg['s']['arg'] == 'text' and cfg['s']['file'] != 'none':
        return []
    routes = []
    if attrs['lead'] == 'none':
        routes = ['ident']
    else:
        routes.append('str')
        if attrs['pylit']:
            routes.append('lit')
        if attrs['json']:
            routes.append('json')
        if not attrs['adv'] and (attrs['pylit'] or attrs['evalok']):
            routes.append('exec')
    tvals = {'emptymap': {}}
    fmt = norm_t(cfg['l']['fmt'])
    if fmt != 'bad':
        for ch, x in case['texts'].items():
            try:
                tvals[ch] = ref_load(fmt, x)
            except Exception:
                pass
    ind = indent_of_flag(cfg['p']['indent'])
    both = obs['stdout'] + obs['stderr']
    lib = []
    for sel, tv in tvals.items():
        for route in routes:
            oc = lib_outcome(tv, route, text if route != 'str' else text)
            k = kind_of(oc)
            rec = dict(sel=sel, route=route, res=k, mj=False, mr=False, me=False)
            if oc[0] == 'ok':
                try:
                    rec['mj'] = obs['stdout'] == dumps(oc[1], ind)
                except Exception:
                    rec['res'] = 'na'
                rec['mr'] = obs['stdout'] == str(oc[1])
            elif oc[0] == 'glomerr':
                rec['me'] = oc[1] in both
            lib.append(rec)
    return lib


def make_row(case, obs):
    ex = obs['exit'] if obs['exit'] in ('0', '1', 'usage', 'crash') else 'other'
    return dict(cfg=case['cfg'], lib=candidates(case, obs), events=obs['events'],
                obs=dict(exit=ex, outempty=obs['stdout'] == '', rc=obs['rc'], err=obs['err']))


def _record_one(job):
    idx, seed, mode, base = job
    rng = random.Random(seed * 1000003 + idx)
    while True:
        case = None
        while case is None:
            case = rand_case(rng)
        d = tempfile.mkdtemp(prefix='row_', dir=base)
        try:
            args, stdin_text, spec_text = materialize(case, d)
            # the spec text of this row is the one with the real directory in it
            conc = dict(case, args=args, stdin=stdin_text, spec_text=spec_text,
                        files={k: v.replace(DIR, d) for k, v in case['files'].items()})
            obs = RUNNERS[mode](conc, d)
            row = make_row(conc, obs)
        finally:
            shutil.rmtree(d, ignore_errors=True)
        if all(c['res'] != 'na' for c in row['lib']) and not ambiguous_events(conc)[0]:
            break        # (the library itself neither returns nor raises a GlomError: outside C19;
            #              or an audit event could not be attributed to the spec text)
    return dict(row=row, case=case, mode=mode, obs=dict(obs, stdout=obs['stdout'][:400]), idx=idx, seed=seed)


def record(check, n_sub, n_in, seed):
    base = tempfile.mkdtemp(prefix='glomverif_c19_')
    try:
        import multiprocessing as mp
        jobs = [(i, seed, 'subproc', base) for i in range(n_sub)] + \
               [(n_sub + i, seed, 'inproc', base) for i in range(n_in)]
        with mp.get_context('fork').Pool(vlib.NCPU) as pool:
            recs = pool.map(_record_one, jobs, chunksize=8)
    finally:
        shutil.rmtree(base, ignore_errors=True)
    rows = [r['row'] for r in recs]
    rejects = vlib.validate_rows(check, 'Trace_C19', rows, 'random-invocations', chunk=2500)
    index = {id(r['row']): r for r in recs}
    drift = []
    for row, rej in rejects:
        rec = index[id(row)]
        clause = rej['clause']
        case = dict(kind='row', clause=clause, row=row, case=rec['case'], mode=rec['mode'], obs=rec['obs'],
                    idx=rec['idx'], seed=rec['seed'])
        if clause.startswith('law:'):
            check.violation(case, 'recorded execution rejected by the specification: clause %s (argv %r)'
                            % (clause, rec['case']['args']), matcher=match_finding)
        elif clause.startswith('drift:'):
            drift.append(dict(why='recorded execution: mechanism clause %s' % clause, case=case))
        else:
            raise vlib.MachineryError('row %d: %s (%r)' % (rec['idx'], clause, rec['case']['args']))
    for r in recs[:2]:
        check.sample(dict(kind='recorded', mode=r['mode'], argv=r['case']['args'], stdin=r['case']['stdin'][:80],
                          row=r['row']), limit=6)
    stats = {}
    for r in recs:
        key = '%s/%s' % (r['row']['obs']['exit'], 'exec' if 'exec' in r['row']['events'] else '-')
        stats[key] = stats.get(key, 0) + 1
    check.extra['recorded_rows'] = dict(subprocess=n_sub, inprocess=n_in, by_exit_and_exec=stats)
    return len(rows), drift, recs


def match_finding(f, case):
    return False


# ---------------------------------------------------------------------------------------
TIER_CFG = {'quick': 'MC_C19', 'thorough': 'MC_C19_thorough'}
TIER_ABSENT = {'quick': {'RunInspect'}, 'thorough': set()}    # --inspect is enumerated in the thorough tier only
MUTANTS = ['evalfallback', 'stdinfirst', 'exit0', 'indent0', 'execjson', 'extformat', 'exttarget', 'argvignored',
           'scalarcoll', 'debugdrop', 'usage0']


def self_check():
    """the pools and the class table agree with the specification's AllTextClasses"""
    import re
    check_malformed()
    with open(os.path.join(vlib.SPEC_DIR, 'MC_C19.tla')) as f:
        rows = re.findall(r'TxtClass\("(\w+)",\s*"(\w+)",\s*(TRUE|FALSE),\s*(TRUE|FALSE),\s*(TRUE|FALSE),\s*'
                          r'(TRUE|FALSE),\s*(TRUE|FALSE)\)', f.read())
    table = {r[0]: (r[1],) + tuple(x == 'TRUE' for x in r[2:]) for r in rows}
    if table != CLASS_ATTRS:
        raise vlib.MachineryError('text classes of MC_C19.tla and harness/c19.py differ: %s'
                                  % sorted(set(table.items()) ^ set(CLASS_ATTRS.items())))
    pools()
    kind_table()


def main(tier, seed):
    check = vlib.Check(PROP, tier, seed)
    self_check()
    _TIER[0], _SEED[0] = tier, seed
    res, results = vlib.map_states('MC_C19', worker, cfg=TIER_CFG[tier], coverage=(tier == 'thorough'))
    check.add_tlc(res, TIER_CFG[tier])
    drift, machinery = [], []
    sig_sub, sig_first = set(), {}
    unreal = n_sub_runs = 0
    actions = {}
    for r in results:
        n_sub_runs += r['subruns']
        for a, n in r['actions'].items():
            actions[a] = actions.get(a, 0) + n
        check.cov['evaluations'] += r['runs']
        check.cov['distinct_nontrivial'] += r['nontrivial']
        check.validated(r['agreed'])
        unreal += r['unrealizable']
        for s in r['samples']:
            check.sample(s)
        for b in r['law']:
            check.violation(b['case'], b['why'], matcher=match_finding)
        drift += r['drift']
        machinery += r['machinery']
        sig_sub |= r['sig_sub']
        for k, v in r['sig_first'].items():
            sig_first.setdefault(k, v)
    # child processes for every behaviour signature not yet run as one
    todo = []
    for sig, st in sorted(sig_first.items()):        # 'A:' signatures first
        if sig not in sig_sub:
            todo.append(st)
            sig_sub.update(signatures(st))
    base = tempfile.mkdtemp(prefix='glomverif_c19_')
    try:
        def one(st):
            out = dict(runs=0, unrealizable=0, law=[], drift=[], machinery=[])
            replay_state(st, ['subproc'], base, seed, out)
            return out
        with ThreadPoolExecutor(vlib.NCPU) as ex:
            subs = list(ex.map(one, todo))
    finally:
        shutil.rmtree(base, ignore_errors=True)
    for r in subs:
        n_sub_runs += r['runs']
        check.cov['evaluations'] += r['runs']
        for b in r['law']:
            check.violation(b['case'], b['why'], matcher=match_finding)
        drift += r['drift']
        machinery += r['machinery']
    # vacuity: every action of the machine is taken by some replayed behaviour
    import re
    with open(os.path.join(vlib.SPEC_DIR, 'GlomCli.tla')) as f:
        named = set(re.findall(r'(?:Do|End|Usage|Crash|Pick)\("([A-Za-z]+)"', f.read()))
    missing = sorted(named - set(actions) - TIER_ABSENT[tier])
    if missing or not named:
        raise vlib.MachineryError('actions of GlomCli never taken in the explored universe: %s' % missing)
    check.extra['action_coverage'] = actions
    if machinery:
        raise vlib.MachineryError('%d machinery problems, first: %s' % (len(machinery), machinery[0]['why']))
    n_sub, n_in = {'quick': (120, 1800), 'thorough': (4000, 30000)}[tier]
    nrec, rdrift, _ = record(check, n_sub, n_in, seed)
    drift += rdrift
    check.cov['evaluations'] += nrec
    for dft in drift[:5]:
        print('DRIFT property=%s (mechanism part of the specification no longer matches cli.py; no law involved): %s'
              % (PROP, dft['why'][:300]))
    check.extra['drift'] = dict(count=len(drift), first=[dict(why=x['why'], argv=x['case']['case']['args']) for x in drift[:5]])
    check.extra['unrealizable_states'] = unreal
    check.extra['child_process_runs_for_tlc_states'] = n_sub_runs
    check.extra['behaviour_signatures'] = len(set(sig_first) | sig_sub)
    if tier == 'thorough':
        mres = {}
        for mu in MUTANTS:
            r = vlib.run_tlc('MC_C19', cfg='MC_C19_mut_' + mu, workers=4)
            mres[mu] = r['violated']
            if not r['violated']:
                raise vlib.MachineryError('spec mutant %s does not violate any law' % mu)
        check.extra['spec_mutants_violate'] = mres
    check.assumptions += [
        'ast.literal_eval, json.loads, yaml.safe_load and tomllib.loads are trusted (side-effect free; they are the '
        'reference loaders); "never executed" is decided for the parse routes the specification names '
        '(literal | repr-quoted path string | json) and observed through audit events on enumerated texts, not proved for all texts',
        'spec texts are canonical renderings (repr / json.dumps, optionally pretty-printed) of str/dict/list/tuple '
        'literals, bare path strings not starting with a quote, bracket or "-", or non-literal texts; literals written '
        'with a prefix or leading blank (r\'a\', " \'a\'") and bare paths in a spec file ending in a newline are outside the universe',
        'no spec text (absent argument, empty argument, empty spec file) means the identity spec, an empty target text '
        '(empty stdin, empty file) means the empty mapping {}: read off the usage line "[spec [target]]"; the property is silent',
        'standard input is never a terminal; the "yml" alias, --help and missing yaml/toml packages are not modelled; '
        '--debug is judged when glom succeeds (same output); --inspect and --debug with a GlomError are interactive '
        '(pdb at end of input): run, only "never executed" is judged',
        'file names (extensions .py .json .yml .toml .txt or none, drawn per run where the model says "any") designate '
        'nothing: only --spec-format / --target-format decide; --spec-file has no standard-input route ("-" is a missing file)',
        'documented command-line syntax ("[FLAGS] [spec [target]]", integer --indent): anything else (a third positional, '
        'a non-integer indent, an unknown flag) must be a usage error without a result; an empty positional designates '
        'nothing, for the target as for the spec: it is as if absent (so standard input is read)',
        'targets are JSON-representable (python / YAML targets may have integer keys, python targets tuples); --scalar is '
        'judged for str, int and float results, not for None / bool (observed: Python spelling True / None, not JSON); '
        'TOML targets are tables without null',
        'a result json.dumps cannot serialise (set, bytes, date / time from python-literal, YAML or TOML targets) is not '
        'judged (observed: the TypeError escapes as a traceback; bytes / dates print raw under --scalar); inf / nan under '
        '--scalar are not judged; a negative --indent is json.dumps(indent=n) like any other; a repeated option and "--" '
        'before the positionals are not judged (observed: usage errors); --flagfile (face built-in) is not modelled',
        'process status (1 for every failure class) and "usage errors and tracebacks on stderr, results and GlomError reports on '
        'stdout" are mechanism-level (DRIFT, not VIOLATION); message wording is never compared',
        'a usage error is observed as: face.UsageError raised by cli.main / non-zero exit status, "error:" on stderr, '
        'no traceback; only the exit status 1 of a GlomError is compared exactly',
        'TLC, the Json/IOUtils community modules and the harness (pools, renderers, audit hook) are trusted']
    return check.finish(
        rule='TLC enumerates every behaviour of the GlomCli machine over the configuration space of the tier; every '
             'terminal state is made concrete (pool target/spec realising the chosen library outcome, decoy targets on '
             'the other channels) and run in-process, plus as a child process for every distinct behaviour signature '
             '(spec action x text class x final action; action history x target format); non-trivial = the behaviour goes beyond spec parsing or carries an '
             'adversarial text; distinct by TLC state',
        exhaustive=True)


def replay(path):
    with open(path) as f:
        v = json.load(f)
    c = v['case']
    self_check()
    base = tempfile.mkdtemp(prefix='glomverif_c19_')
    bad = 0
    try:
        if c['kind'] == 'state':
            for mode in ('inproc', 'subproc'):
                obs = run_case(c['case'], mode, base)
                probs = judge(c['state'], c['case'], obs)
                print('%s: argv=%r exit=%s events=%s marker=%s stdout=%r' % (mode, c['case']['args'], obs['exit'],
                                                                           obs['events'], obs['marker'], obs['stdout'][:200]))
                for level, msg in probs:
                    print('  %s: %s' % (level, msg))
                    bad += level == 'law'
        else:
            rec = _record_one((c['idx'], c['seed'], c['mode'], base))
            chk = vlib.Check(PROP, 'quick', c['seed'])
            rej = vlib.validate_rows(chk, 'Trace_C19', [rec['row']], 'replay')
            print('%s: argv=%r exit=%s events=%s' % (c['mode'], rec['case']['args'], rec['row']['obs']['exit'], rec['row']['events']))
            for _row, r in rej:
                print('  rejected: %s' % r['clause'])
                bad += r['clause'].startswith('law:')
    finally:
        shutil.rmtree(base, ignore_errors=True)
    return 1 if bad else 0
