"""Realisation of the spec trees of spec/GlomFrames.tla as real glom specs, and recording of
real executions (probe / read log through the specs themselves, scope events through the
GLOM_VERIF hook).

Composite nodes are the real glom constructs (tuple, Pipe, dict, list, Coalesce, Or, And, Not,
Switch, Match-mode dict, Auto / Fill / Match, Spec(scope=), S(k=..), A.k, A.globals.k).  Leaves are
small custom specs using glom's documented extension point glomit(target, scope); they never
look at glom's bookkeeping, they only evaluate ordinary sub-specs through scope[glom] and log
what came back.
"""
import glom
from glom import (glom as _glom_fn, Pipe, Coalesce, Or, And, Not, Switch, Match, Auto, Fill, Spec, Val, S, A, T,
                  GlomError, MatchError, BadSpec)
from glom.core import MODE, MIN_MODE, UP, NO_PYFRAME

GLOM = glom.glom


class PlantedError(GlomError):
    """raised by a failing leaf"""
    def __init__(self, n):
        self.n = n
        super().__init__(n)

    def get_message(self):
        if self.n and self.n == MULTILINE_FOR[0]:
            # a parser-style message: several lines, a blank one and a caret-only pointer line
            return 'planted %d\n  in detail:\n\n      ^' % self.n
        return 'planted %d' % self.n


class AlienError(LookupError):
    """raised by a failing leaf whose fate is 'alien': not a GlomError (no branching spec recovers from it;
    glom() wraps it at the very end), and -- like KeyError or OSError -- a class with its own __str__"""
    def __init__(self, n):
        self.n = n
        super().__init__(n)

    def __str__(self):
        return PlantedError.get_message(self)


class UncopyableError(PlantedError):
    """a GlomError subclass whose constructor cannot be re-run on its .args (glom() cannot copy it and
    finalizes the original object in place)"""
    def __init__(self, n, limit):
        self.n = n
        GlomError.__init__(self, 'planted %d' % n)

    def get_message(self):
        return 'planted %d' % self.n


UNCOPYABLE = [False]
MULTILINE_FOR = [0]     # leaf execution number whose PlantedError carries a multi-line message


class Tok:
    """a target: identified by a tuple of ints; iterating yields two sub-targets.  Objects made by a
    `copy` leaf are distinct from, but compare equal to, the target they were made from (eq class)."""
    _cache = {}

    def __new__(cls, ident, like=None):
        ident = tuple(ident)
        if ident not in cls._cache:
            o = object.__new__(cls)
            o.ident = ident
            o.eqclass = like.eqclass if like is not None and hasattr(like, 'eqclass') else ident
            cls._cache[ident] = o
        return cls._cache[ident]

    def __eq__(self, other):
        if not isinstance(other, Tok):
            # hostile towards foreign operands: the library has no business comparing a target with
            # anything by == (sentinels and breadcrumbs are identity tests)
            raise TypeError('a target was compared with a %s by ==' % type(other).__name__)
        return self.eqclass == other.eqclass

    def __ne__(self, other):
        return not self == other

    def __hash__(self):
        return hash(self.eqclass)

    def __iter__(self):
        return iter([Tok(self.ident + (1,)), Tok(self.ident + (2,))])

    def __bool__(self):
        # every target of the frame machine is falsy: a truth test in the library is never a substitute for
        # an identity / None / emptiness test
        return False

    def __repr__(self):
        return 't' + '.'.join(str(i) for i in self.ident)


def skip_all(value):
    return True


class Run:
    """per-call environment shared by the leaves"""
    def __init__(self, plan):
        self.plan = plan
        self.leaf = 0
        self.log = []
        self.by_path = {}      # node path -> the real spec object built for it


class Leaf:
    def __init__(self, run, kind, path):
        self.run, self.kind, self.path = run, kind, tuple(path)

    def glomit(self, target, scope):
        r = self.run
        if self.kind == 'fail':
            raise PlantedError(0)
        r.leaf += 1
        n = r.leaf
        if n <= len(r.plan) and r.plan[n - 1] == 'err':
            e = UncopyableError(n, 9) if UNCOPYABLE[0] else PlantedError(n)
            if NOTES[0]:
                e.add_note('(note for planted %d)' % n)
            raise e
        if n <= len(r.plan) and r.plan[n - 1] == 'alien':
            raise AlienError(n)
        if self.kind == 'new':
            return Tok((n,))
        if self.kind == 'copy':
            return Tok((n,), like=target)
        return target

    def __repr__(self):
        return '%s%s' % (self.kind.capitalize(), ''.join(str(i) for i in self.path))


class StopLeaf:
    def __init__(self, path):
        self.path = tuple(path)

    def glomit(self, target, scope):
        return glom.STOP

    def __repr__(self):
        return 'Stop%s' % ''.join(str(i) for i in self.path)


PROBE_TARGET = {'p': 'A'}


class Probe:
    """reports how plain Python containers are interpreted at this position: evaluates a string,
    a tuple, a list and a dict probe on fixed targets of its own and logs the behaviour"""
    def __init__(self, run, path):
        self.run, self.path = run, tuple(path)
        self.in_first = VARS_FLAVOUR[0] == 'firstkey'     # probe from inside the key spec of First

    def glomit(self, target, scope):
        if self.in_first:
            from glom import Iter
            from glom.streaming import First
            outer = self

            class Key:
                def glomit(self, t, sc):
                    outer._probe(sc)
                    return True
            scope[GLOM]([target], Pipe(Iter(), First(Key())), scope)      # (a Pipe chains in every mode)
        else:
            self._probe(scope)
        return target

    def _probe(self, scope):
        seen = []
        for tgt, spec in ((PROBE_TARGET, 'p'), (PROBE_TARGET, ('p',)), ([PROBE_TARGET], ['p']), (PROBE_TARGET, {'k': 'p'})):
            try:
                seen.append(scope[GLOM](tgt, spec, scope))
            except MatchError:
                seen.append('M')
            except BadSpec:
                seen.append('G')
        # a reducer (Flatten) accumulates across items exactly when Group mode is in force here;
        # anywhere else it reduces the target it is given
        from glom import Flatten
        try:
            r = scope[GLOM]([[1], [2]], Flatten(), scope)
            seen.append('reduce' if r == [1, 2] else 'aggregate')
        except Exception as e:
            seen.append('E:' + type(e).__name__)
        self.run.log.append({'p': list(self.path), 'what': 'mode', 'v': classify(seen), 'raw': repr(seen)})

    def __repr__(self):
        return 'Probe%s' % ''.join(str(i) for i in self.path)


def classify(seen):
    if seen == ['A', 'A', ['A'], {'k': 'A'}, 'reduce']:
        return 'AUTO'
    if seen == ['p', ('p',), ['p'], {'k': 'p'}, 'reduce']:
        return 'FILL'
    if seen == ['M', 'M', 'M', 'M', 'reduce']:
        return 'MATCH'
    if seen == ['G', 'G', 'G', 'G', 'aggregate']:
        return 'GROUP'
    return 'MIXED:' + repr(seen)


INV = ('inv',)


class VDefault:
    def __repr__(self):
        return 'vdefault'


VDEFAULT = VDefault()
# how the vbind / vset / vread nodes are realised: 'vars' S(v=Vars({'k': d})), A.v.k, S.v.k;
# 'dict' S(v={'k': d}), A.v['k'], S.v['k'] (a dict literal is rebuilt per evaluation by the argument
# mode); 'edict' S(v={}) (the empty literal; an unset entry reads as the default)
VARS_FLAVOUR = ['vars']


class NestLeaf:
    """makes a complete, independent glom() call of its own that binds and reads its own S.globals"""
    def __init__(self, path):
        self.path = tuple(path)

    def glomit(self, target, scope):
        r = _glom_fn({'a': 1}, ('a', A.globals.g, Coalesce(S.globals.g, default=Val(INV))))
        if r != 1:
            raise AssertionError('the independent inner call misbehaved: %r' % (r,))
        return target

    def __repr__(self):
        return 'Nest%s' % ''.join(str(i) for i in self.path)


class _Called:
    """a plain callable (no glomit, not a type): logs that it was called and returns its target"""
    def __init__(self, run, path):
        self.run, self.path = run, list(path)

    def __call__(self, target):
        self.run.log.append({'p': self.path, 'what': 'call', 'v': None, 'raw': 'called'})
        return target

    def __repr__(self):
        return 'called%s' % ''.join(str(i) for i in self.path)


def call_leaf(run, path):
    return _Called(run, path)


class Mark:
    """logs that it ran"""
    def __init__(self, run, path):
        self.run, self.path = run, tuple(path)

    def glomit(self, target, scope):
        self.run.log.append({'p': list(self.path), 'what': 'mark', 'v': ['m']})
        return target

    def __repr__(self):
        return 'Mark%s' % ''.join(str(i) for i in self.path)


class Read:
    """logs what S.<name> (or S.globals.<name>) resolves to at this position"""
    def __init__(self, run, path, name, glob=False, style='attr', what='read', in_first=False):
        self.run, self.path, self.name, self.glob, self.what = run, tuple(path), name, glob, what
        self.in_first = in_first      # the lookup happens inside the key spec of Iter().first(key)
        if what == 'vread' and VARS_FLAVOUR[0] == 'vars':
            self.spec = Coalesce(getattr(getattr(S, name), 'k'), default=Val(INV))
        elif what == 'vread' and VARS_FLAVOUR[0] == 'dict':
            self.spec = Coalesce(getattr(S, name)['k'], default=Val(INV))
        elif what == 'vread':
            self.spec = Coalesce(getattr(S, name)['k'], Pipe(getattr(S, name), Val(VDEFAULT)), default=Val(INV))
        elif glob:
            self.spec = Coalesce(getattr(S.globals, name), default=Val(INV))
        elif style == 'item':
            self.spec = Coalesce(S[name], default=Val(INV))
        else:
            self.spec = Coalesce(getattr(S, name), default=Val(INV))

    def glomit(self, target, scope):
        if self.in_first:
            from glom import Iter
            box = []
            outer = self

            class Key:
                def glomit(self, t, sc):
                    box.append(sc[GLOM](t, outer.spec, sc))
                    return True
            from glom.streaming import First
            scope[GLOM]([target], Pipe(Iter(), First(Key())), scope)      # (a Pipe chains in every mode)
            v = box[0] if box else ('key-not-evaluated',)
        else:
            v = scope[GLOM](target, self.spec, scope)
        self.run.log.append({'p': list(self.path), 'what': self.what, 'v': abstract_val(v)})
        return target

    def __repr__(self):
        return 'Read%s' % ''.join(str(i) for i in self.path)


class BVal:
    """the value bound by a binder at a node path"""
    def __init__(self, path):
        self.path = tuple(path)

    def __repr__(self):
        return 'b' + ''.join(str(i) for i in self.path)


def abstract_val(v):
    if v is INV or (isinstance(v, tuple) and len(v) == 1 and isinstance(v[0], str) and v[0] == 'inv'):
        return ['inv']
    if v is None:
        return ['n']
    if isinstance(v, BVal):
        return ['b'] + list(v.path)
    if v is VDEFAULT:
        return ['d']
    if isinstance(v, Tok):
        return ['t'] + list(v.ident)
    if isinstance(v, str):
        return ['s', v]
    return ['other', repr(v)]


class MDict:
    """Match-mode dict with one key / value spec pair, fed with {'K': target} (two=True: {'K': t, 'L': t})"""
    def __init__(self, path, k, v, two=False):
        self.path, self.d, self.two = tuple(path), {k: v}, two

    def glomit(self, target, scope):
        r = scope[GLOM]({'K': target, 'L': target} if self.two else {'K': target}, self.d, scope)
        return r

    def __repr__(self):
        return 'MDict%s' % ''.join(str(i) for i in self.path)


def build(tree, run, path=(), index=None):
    """real spec for a tree; index maps id(spec object) -> node path (for hook events)"""
    k, a, c = tree['k'], tree['a'], tree['c']
    sub = [None] * len(c)

    def child(i):
        return build(c[i], run, path + (i + 1,), index)
    if k in ('new', 'same', 'copy', 'fail'):
        s = Leaf(run, k, path)
    elif k == 'starq':
        s = T.__star__()[T['nokey']]      # the argument spec fails on every element: all misses, result []
    elif k == 'skp':
        from glom import SKIP
        s = Val(SKIP)       # a step that answers SKIP
    elif k == 'typ':
        s = int         # a plain type: a Match-mode pattern no target of the universe satisfies
    elif k == 'smiss':
        s = getattr(S, 'nope%s' % ''.join(str(i) for i in path))
    elif k == 'iter':
        from glom import Iter
        s = Iter(child(0))
    elif k == 'consume':
        s = list
    elif k == 'call':
        s = call_leaf(run, path)
    elif k == 'probe':
        s = Probe(run, path)
    elif k == 'read':
        s = Read(run, path, a, in_first=(VARS_FLAVOUR[0] == 'firstkey'))
    elif k == 'nest':
        s = NestLeaf(path)
    elif k == 'gread':
        s = Read(run, path, a, glob=True)
    elif k == 'vread':
        s = Read(run, path, a, what='vread')
    elif k == 'mark':
        s = Mark(run, path)
    elif k == 'vbind':
        from glom import Vars
        v = Vars({'k': VDEFAULT}) if VARS_FLAVOUR[0] == 'vars' else {'k': VDEFAULT} if VARS_FLAVOUR[0] == 'dict' else {}
        s = S(**{a: v})
        if index is not None:
            index[id(v)] = path + (0,)
    elif k == 'vset':
        s = getattr(getattr(A, a), 'k') if VARS_FLAVOUR[0] == 'vars' else getattr(A, a)['k']
    elif k == 'refdef':
        from glom import Ref
        s = Ref(a, child(0))
    elif k == 'refuse':
        from glom import Ref
        s = Ref(a)
    elif k == 'sbind':
        v = Val(BVal(path))
        s = S(**{a: v})
        if index is not None:
            index[id(v)] = path + (0,)
    elif k == 'nbind':
        v = Val(None)
        s = S(**{a: v})
        if index is not None:
            index[id(v)] = path + (0,)
    elif k == 'sbind2':
        s = S(x=Val(BVal(path)), y=Coalesce(S.x, default=Val(INV)))
    elif k == 'abind':
        s = getattr(A, a)
    elif k == 'gbind':
        s = getattr(A.globals, a)
    elif k == 'spec':
        s = Spec(child(0), scope={a: BVal(path)})
    elif k in ('auto', 'fill', 'match'):
        s = {'auto': Auto, 'fill': Fill, 'match': Match}[k](child(0))
    elif k == 'group':
        from glom.grouping import Group
        s = Group(child(0))
    elif k == 'stop':
        s = StopLeaf(path)
    elif k == 'pipe':
        s = Pipe(*[child(i) for i in range(len(c))])
    elif k == 'tup':
        s = tuple(child(i) for i in range(len(c)))
    elif k == 'dict':
        s = {'k%d' % (i + 1): child(i) for i in range(len(c))}
    elif k == 'list':
        s = [child(0)]
    elif k == 'coal':
        s = Coalesce(*[child(i) for i in range(len(c))])
    elif k == 'coalskip':
        s = Coalesce(*[child(i) for i in range(len(c))], skip=skip_all)
    elif k == 'or':
        s = Or(*[child(i) for i in range(len(c))])
    elif k == 'and':
        s = And(*[child(i) for i in range(len(c))])
    elif k == 'not':
        s = Not(child(0))
    elif k == 'switch':
        s = Switch([(child(2 * i), child(2 * i + 1)) for i in range(len(c) // 2)])
    elif k in ('mdict', 'mdict2'):
        s = MDict(path, child(0), child(1), two=(k == 'mdict2'))
        if index is not None:
            index[id(s.d)] = path + (0,)
    else:
        raise ValueError(k)
    run.by_path[tuple(path)] = s
    if index is not None:
        index[id(s)] = path
        if k == 'dict':
            # FILL / argument mode evaluates the (literal) keys too
            for i, key in enumerate(s):
                index[id(key)] = path + (i + 1, 0)
    return s


MODE_NAMES = {}


def mode_name(m):
    if not MODE_NAMES:
        from glom.core import AUTO, FILL
        from glom.matching import _glom_match
        from glom.grouping import GROUP
        MODE_NAMES.update({AUTO: 'AUTO', FILL: 'FILL', _glom_match: 'MATCH', GROUP: 'GROUP'})
    return MODE_NAMES.get(m, 'OTHER')


class Recorder:
    """scope events of one call, with frames numbered in creation order (root scope = 1) and
    only the frames of tree nodes kept (internals of the custom leaves are dropped)"""

    def __init__(self, index):
        self.index = index
        self.events = []
        self.fid = {}
        self.keep = []      # keeps scopes alive so ids are not reused
        self.errors = {}

    def num(self, scope):
        m = scope.maps[0]
        if id(m) not in self.fid:
            self.fid[id(m)] = len(self.fid) + 1
            self.keep.append(m)
        return self.fid[id(m)]

    def path_of(self, scope):
        m = scope.maps[0]
        spec = m.get(glom.Spec)
        p = self.index.get(id(spec))
        return p

    def __call__(self, ev, scope, other):
        if ev == 'enter':
            par = other
            if not self.fid:
                self.num(par)           # the root scope of the call
            p = self.path_of(scope)
            m = scope.maps[0]
            self.events.append({'a': 'enter', 'f': self.num(scope), 'par': self.num(par),
                                'path': list(p) if p is not None else [-1],
                                'mode': mode_name(scope[MODE]), 'minmode': scope[MIN_MODE] is not None})
        elif ev == 'error':
            self.events.append({'a': 'error', 'f': self.num(scope), 'cls': type(other).__name__})
            self.errors[self.num(scope)] = other
        elif ev == 'chain':
            self.events.append({'a': 'chain', 'from': self.num(scope), 'to': self.num(other)})


def normalise(events):
    """drop the frames that do not belong to tree nodes (internals of the custom leaves) and
    renumber the remaining frames in creation order (root scope = 1), like the model does"""
    keep = {1: 1}
    out = []
    for ev in events:
        if ev['a'] == 'enter':
            if ev['path'] == [-1] or ev['par'] not in keep:
                continue
            keep[ev['f']] = len(keep) + 1
            out.append(dict(ev, f=keep[ev['f']], par=keep[ev['par']]))
        elif ev['a'] == 'error':
            if ev['f'] in keep:
                out.append(dict(ev, f=keep[ev['f']]))
        elif ev['a'] == 'chain':
            if ev['from'] in keep and ev['to'] in keep:
                out.append({'a': 'chain', 'from': keep[ev['from']], 'to': keep[ev['to']]})
    return out


class BigTok(Tok):
    """a root target whose repr is long (gets truncated in traces) and not ASCII"""
    def __repr__(self):
        return 't0<' + '\u00e9\u4e16' * 90 + '>'

    def __len__(self):
        return 7


class ExactTok(Tok):
    """a root target whose repr fits a depth-0 'Target:' line exactly (nothing needs cutting)"""
    WIDTH = [0]

    def __repr__(self):
        return 't0<' + 'x' * (self.WIDTH[0] - len(' - Target: ') - 4) + '>'


class BadLenTok(BigTok):
    """... and whose __len__ fails (a closed / lazy collection)"""
    def __len__(self):
        raise RuntimeError('collection is closed')


NOTES = [False]     # planted errors carry a PEP 678 note (a second line after 'Type: message')


def execute(tree, plan, caller_scope=None, hook=True, prebuilt=None, big_root=False, multiline_for=0, flavour='vars', notes=False, uncopyable=False):
    """run the real library on the realisation of tree; returns dict(out, log, events, error).
    prebuilt: (spec, run, index) of an earlier execute() -- evaluates the SAME spec objects again"""
    if prebuilt is not None:
        spec, run, index = prebuilt
        run.plan, run.leaf, run.log = plan, 0, []
    else:
        run = Run(plan)
        index = {}
        VARS_FLAVOUR[0] = flavour
        try:
            spec = build(tree, run, (), index)
        finally:
            VARS_FLAVOUR[0] = 'vars'
    rec = Recorder(index)
    if hook:
        glom.core._verif_install(rec)
    Tok._cache.clear()
    MULTILINE_FOR[0] = multiline_for
    NOTES[0] = notes
    UNCOPYABLE[0] = uncopyable
    kw = {}
    if caller_scope is not None:
        kw['scope'] = caller_scope
    try:
        try:
            root = Tok((0,))
            if big_root == 'deque':
                import collections
                root = collections.deque([Tok((0, 1)), Tok((0, 2)), 3, 4, 5, 6, 7, 8, 9])
            elif big_root == 'true':
                root = True
            elif big_root == 'emptystr':
                root = ''
            elif big_root == 'exact':
                root = object.__new__(ExactTok)
                root.ident, root.eqclass = (0,), (0,)
            elif big_root:
                root = object.__new__(BadLenTok if big_root == 'badlen' else BigTok)
                root.ident, root.eqclass = (0,), (0,)
            res = _glom_fn(root, spec, **kw)
            out = {'out': 'ok', 'error': None}
        except (GlomError, AlienError) as e:
            out = {'out': 'err', 'error': e}
    finally:
        MULTILINE_FOR[0] = 0
        NOTES[0] = False
        UNCOPYABLE[0] = False
        if hook:
            glom.core._verif_install(None)
    out.update(log=run.log, events=normalise(rec.events), spec=spec, index=index, prebuilt=(spec, run, index))
    return out
