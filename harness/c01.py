"""C01  Path access returns the addressed object or pinpoints the failing segment.

spec -> code: every case TLC enumerates from spec/MC_C01.tla (target heap x step
sequence, with the outcome predicted by GlomAccess!PathEval) is replayed into the real
library in every spelling the case admits (dotted string cold and cache-warm, Path(..),
Path mixing T steps, pure T), on plain builtin containers and on logging subclasses.
code -> spec: random object graphs (sharing, cycles, sets, 3-12 cells) and paths up to
length 8 are run through the real library and the recorded rows are validated by TLC
(spec/Trace_C01.tla).
"""
import random

import glom
from glom import Path, T, GlomError, PathAccessError

import codec
import vlib

PROP = 'C01'


def arg_py(a):
    k = a['k']
    return {'int': lambda: a['i'], 'str': lambda: a['s'], 'none': lambda: None,
            'bool': lambda: a['b'], 'sent': lambda: codec.SENT[a['s']]}[k]()


def spellings(steps):
    """All spec spellings of a step sequence: list of (name, spec factory)."""
    out = []
    ops = [s['op'] for s in steps]
    args = [arg_py(s['arg']) for s in steps]

    def tstep(t, op, a):
        return t[a] if op == '[' else getattr(t, a)
    if steps and all(o == 'P' for o in ops) and all(isinstance(a, str) and '.' not in a and a not in ('*', '**') for a in args):
        text = '.'.join(args)
        out.append(('dotted', lambda: text))
        out.append(('dotted-warm', lambda: (glom.Path.from_text(text), text)[1]))
    # Path with one part per step
    def parts():
        return [a if o == 'P' else tstep(T, o, a) for o, a in zip(ops, args)]
    ok_path = all(o != 'P' or not isinstance(a, (glom.core.TType, Path)) for o, a in zip(ops, args))
    if ok_path:
        out.append(('Path', lambda: Path(*parts())))
        if len(steps) >= 2:
            # a Path given as the first part of another Path: the same steps, spliced in with their kinds
            out.append(('Path-nested', lambda: Path(Path(*parts()[:-1]), parts()[-1])))
    # consecutive T steps merged into one T chain
    if any(o != 'P' for o in ops):
        def merged():
            ps, cur = [], None
            for o, a in zip(ops, args):
                if o == 'P':
                    if cur is not None:
                        ps.append(cur)
                        cur = None
                    ps.append(a)
                else:
                    cur = tstep(cur if cur is not None else T, o, a)
            if cur is not None:
                ps.append(cur)
            return Path(*ps)
        out.append(('Path-merged', merged))
    if all(o != 'P' for o in ops):
        def pure():
            t = T
            for o, a in zip(ops, args):
                t = tstep(t, o, a)
            return t
        out.append(('T', pure))
    return out


def observe(heap, root, spec):
    """Run the real library; project every observable C01 names."""
    target = heap.val(root)
    del codec.ACCESS_LOG[:]
    try:
        res = glom.glom(target, spec)
    except PathAccessError as e:
        log = [heap.ids[i] for i in codec.ACCESS_LOG if i in heap.ids]
        return {'ok': False, 'err': 'PathAccessError', 'idx': e.part_idx,
                'exc': codec.exc_class_name(e.exc), 'log': log,
                'isa': [isinstance(e, c) for c in (GlomError, KeyError, IndexError, AttributeError)]}
    except Exception as e:
        log = [heap.ids[i] for i in codec.ACCESS_LOG if i in heap.ids]
        name = codec.exc_class_name(e)
        return {'ok': False, 'err': name, 'idx': -1, 'exc': name, 'log': log,
                'isa': [isinstance(e, GlomError)] * 4}
    log = [heap.ids[i] for i in codec.ACCESS_LOG if i in heap.ids]
    return {'ok': True, 'v': heap.project(res), 'log': log}


def compare(pred, obs, logging):
    if pred['ok'] != obs['ok']:
        return 'outcome: predicted ok=%s observed ok=%s' % (pred['ok'], obs['ok'])
    if pred['ok']:
        if pred['v'] != obs['v']:
            return 'identity: predicted %s observed %s' % (pred['v'], obs['v'])
    else:
        for f in ('err', 'idx', 'exc'):
            if pred[f] != obs[f]:
                return '%s: predicted %r observed %r' % (f, pred[f], obs[f])
        if pred['err'] == 'PathAccessError' and obs['isa'] != [True] * 4:
            return 'PathAccessError not catchable as GlomError/KeyError/IndexError/AttributeError: %s' % obs['isa']
    if logging and pred['log'] != obs['log']:
        return 'access log: predicted %s observed %s' % (pred['log'], obs['log'])
    return None


SWAP = {'dict': 'obj', 'odict': 'obj', 'obj': 'dict', 'list': 'tuple', 'tuple': 'list'}


def decoy(cells):
    """the same heap with the classes of all cells but the first swapped (dict <-> attribute object,
    list <-> tuple); None when a cell cannot take the other class (non-string keys for an object)"""
    out = []
    for i, c in enumerate(cells):
        cls = c['cls'] if i == 0 else SWAP.get(c['cls'], c['cls'])
        if cls == 'obj' and c['cls'] != 'obj' and any(k.get('k') != 'str' or not k['s'].isidentifier() for k, _ in c['items']):
            cls = c['cls']
        out.append({'cls': cls, 'items': c['items']})
    try:
        return codec.Heap(out, codec.PLAIN)
    except Exception:
        return None


import collections
PointKey = collections.namedtuple('PointKey', 'x y')


def replay_case(st, out):
    pred = st['pred']
    # the compound key is realised as a plain tuple and, in one more pass, as a namedtuple (a tuple subclass
    # whose constructor does not take one iterable): the same abstract value for a mapping
    uses_tk = any(s['arg'].get('k') == 'sent' for s in st['steps'])
    passes = [(codec.PLAIN, False, ('a', 'b')), (codec.FALSY_LOGGING, True, ('a', 'b'))] + ([(codec.PLAIN, False, PointKey('a', 'b'))] if uses_tk else [])
    for classes, logging, tk in passes:
        codec.SENT['TK'] = tk
        for name, mk in spellings(st['steps']):
            if name == 'Path-nested' and (logging or isinstance(tk, PointKey)):
                continue        # (the nested spelling is replayed on the plain classes only)
            if isinstance(tk, PointKey):
                name += '/namedtuple-key'
            heap = codec.Heap(st['heap'], classes)
            try:
                spec = mk()
            except Exception as e:   # spelling not constructible (machinery, not glom)
                raise vlib.MachineryError('cannot build %s for %s: %r' % (name, st['steps'], e))
            if not logging and name in ('Path', 'T') and isinstance(st['root'], dict) and st['root'].get('k') == 'ref':
                # the very same spec object is first used on a decoy: a target whose root has the same class
                # but whose inner levels are of other kinds -- nothing of that use may stick to the spec object
                dheap = decoy(st['heap'])
                if dheap is not None:
                    try:
                        glom.glom(dheap.val(st['root']), spec)
                    except Exception:
                        pass
            obs = observe(heap, st['root'], spec)
            why = compare(pred, obs, logging)
            out['n'] += 1
            if why:
                out['bad'].append(dict(why='%s [%s%s]' % (why, name, ',logging' if logging else ''),
                                       case=dict(heap=st['heap'], root=st['root'], steps=st['steps'],
                                                 pred=pred, obs=obs, spelling=name, logging=logging)))




def replay(path):
    """re-run one stored case (bin/check C01 --replay <file>) against the library as it is now"""
    import json
    blob = json.load(open(path))
    st = _state_of(blob['case'])
    if st is None:
        print('REPLAY property=C01: %s holds a recorded observation, not a case of the enumerated universe; it was rejected with: %s'
              % (path, str(blob.get('why'))[:300]))
        print('(the file alone does not allow the case to be re-executed: re-run bin/check C01 to observe the library again)')
        return 2
    out = _replay_states([st])
    if out['bad']:
        print('VIOLATION property=C01 replay=%s' % path)
        print('  why: %s' % (str(out['bad'][0]['why'])[:400],))
        return 1
    print('REPLAY property=C01: the stored case agrees with the specification now (%s)' % path)
    return 0


def _state_of(case):
    if all(k in case for k in ('heap', 'root', 'steps', 'pred')):
        return dict(heap=case['heap'], root=case['root'], steps=case['steps'], pred=case['pred'], phase=1)
    return None


def _replay_states(states):
    return worker(states)


def worker(states):
    out = dict(n=0, cases=0, nontrivial=0, bad=[], samples=[])
    for st in states:
        if st.get('phase') != 1:
            continue
        out['cases'] += 1
        if len(st['steps']) >= 1:
            out['nontrivial'] += 1
        if len(out['samples']) < 1 and len(st['steps']) >= 2:
            out['samples'].append(dict(heap=st['heap'], root=st['root'], steps=st['steps'], pred=st['pred']))
        replay_case(st, out)
    return out


# ---- code -> spec: random graphs --------------------------------------------------------
KEYS = ['a', 'b', 'c', '0', '1']
STRS = ['', 's', 'uv']


def rand_value(rng, n, a, cls, imm):
    """value stored in cell a: scalar or reference (immutables only point upwards and are only
    pointed at from below, so Python can actually build the graph)"""
    r = rng.random()
    if r < 0.55 and n > 1:
        if cls in ('tuple', 'frozenset'):
            cand = [b for b in range(a + 1, n + 1)]
        else:
            cand = [b for b in range(1, n + 1) if not imm[b] or b > a]
        if cls in ('set', 'frozenset'):
            cand = []
        if cand:
            return {'k': 'ref', 'a': rng.choice(cand)}
    r = rng.random()
    if r < 0.3:
        return {'k': 'none'}
    if r < 0.6:
        return {'k': 'int', 'i': rng.randint(-3, 9)}
    return {'k': 'str', 's': rng.choice(STRS)}


def rand_heap(rng):
    n = rng.randint(1, 12)
    classes = [None] + [rng.choice(['dict', 'dict', 'odict', 'list', 'list', 'tuple', 'obj', 'obj', 'set', 'frozenset'])
                        for _ in range(n)]
    imm = [False] + [c in ('tuple', 'frozenset') for c in classes[1:]]
    cells = []
    for a in range(1, n + 1):
        cls = classes[a]
        m = rng.randint(0, 3)
        if cls in ('dict', 'odict'):
            keys = rng.sample(KEYS, m) if rng.random() < 0.7 else list(range(m))
            items = [[{'k': 'str', 's': k} if isinstance(k, str) else {'k': 'int', 'i': k},
                      rand_value(rng, n, a, cls, imm)] for k in keys]
        elif cls == 'obj':
            items = [[{'k': 'str', 's': k}, rand_value(rng, n, a, cls, imm)] for k in rng.sample(KEYS, m)]
        elif cls in ('set', 'frozenset'):
            vals = {rng.randint(0, 5) for _ in range(m)}
            items = [{'k': 'int', 'i': v} for v in sorted(vals)]
        else:
            items = [rand_value(rng, n, a, cls, imm) for _ in range(m)]
        cells.append({'cls': cls, 'items': items})
    return cells


def rand_step(rng, cells, cur, valid):
    """a step for the current abstract value `cur`; valid => try to pick one that succeeds"""
    def val(x):
        return {'k': 'str', 's': x} if isinstance(x, str) else ({'k': 'none'} if x is None else {'k': 'int', 'i': x})
    if valid and cur['k'] == 'ref':
        c = cells[cur['a'] - 1]
        if c['items'] and c['cls'] in ('dict', 'odict'):
            k = rng.choice(c['items'])[0]
            return {'op': rng.choice(['P', '[']), 'arg': k}
        if c['items'] and c['cls'] == 'obj':
            return {'op': rng.choice(['P', '.']), 'arg': rng.choice(c['items'])[0]}
        if c['items'] and c['cls'] in ('list', 'tuple'):
            n = len(c['items'])
            i = rng.randint(-n, n - 1)
            if rng.random() < 0.5:
                return {'op': 'P', 'arg': val(str(i)) if rng.random() < 0.7 else val(i)}
            return {'op': '[', 'arg': val(i)}
    op = rng.choice(['P', 'P', '[', '.'])
    if op == '.':
        return {'op': op, 'arg': val(rng.choice(KEYS + ['x']))}
    arg = rng.choice(KEYS + ['x', '', '-1', '5', 0, 1, -1, 2, -4, None])
    return {'op': op, 'arg': val(arg)}


def abstract_step(cells, cur, st):
    """tiny successor function used only to steer generation towards long valid prefixes"""
    if cur['k'] != 'ref':
        return None
    c = cells[cur['a'] - 1]
    a = st['arg']
    if c['cls'] in ('dict', 'odict', 'obj'):
        for k, v in c['items']:
            if k == a:
                return v
        return None
    if c['cls'] in ('list', 'tuple'):
        try:
            i = int(a.get('s', a.get('i')))
            return c['items'][i]
        except Exception:
            return None
    return None


def rand_row(rng):
    cells = rand_heap(rng)
    root = {'k': 'ref', 'a': 1} if rng.random() < 0.9 else rand_value(rng, 1, 1, 'list', [False, False])
    steps = []
    cur = root
    for _ in range(rng.randint(0, 8)):
        st = rand_step(rng, cells, cur, valid=(cur is not None and rng.random() < 0.85))
        steps.append(st)
        cur = abstract_step(cells, cur, st) if cur is not None else None
    return dict(heap=cells, root=root, steps=steps)


def record(check, n, seed):
    rng = random.Random(seed)
    rows = []
    for _ in range(n):
        row = rand_row(rng)
        sp = spellings(row['steps'])
        name, mk = rng.choice(sp)
        heap = codec.Heap(row['heap'], codec.LOGGING)
        obs = observe(heap, row['root'], mk())
        obs.pop('isa', None)
        if obs['ok']:
            obs.update(err='', idx=-1, exc='')
        else:
            obs['v'] = {'k': 'none'}
        row['obs'] = obs
        row['spelling'] = name
        rows.append(row)
    rejects = vlib.validate_rows(check, 'Trace_C01', rows, 'random-graphs')
    for row, rej in rejects:
        check.violation(dict(row=row, clause=rej['clause']),
                        'recorded execution rejected by the specification: clause %s' % rej['clause'],
                        matcher=match_finding)
    for row in rows[:2]:
        check.sample(dict(kind='recorded', **row), limit=6)
    return len(rows)


def match_finding(f, case):
    return False


def main(tier, seed):
    check = vlib.Check(PROP, tier, seed)
    consts = {'quick': dict(MaxSpine=2, MaxPath=1, MaxPPath=2),
              'thorough': dict(MaxSpine=2, MaxPath=2, MaxPPath=2)}[tier]
    res, results = vlib.map_states('MC_C01', worker, constants=consts)
    check.add_tlc(res, 'MC_C01 %s' % consts)
    for r in results:
        check.cov['evaluations'] += r['n']
        check.cov['distinct_nontrivial'] += r['nontrivial']
        check.validated(r['cases'] - len({str(b['case']['steps']) + str(b['case']['heap']) for b in r['bad']}))
        for s in r['samples']:
            check.sample(s)
        for b in r['bad']:
            check.violation(b['case'], b['why'], matcher=match_finding)
    nrec = record(check, {'quick': 20000, 'thorough': 200000}[tier], seed)
    check.extra['recorded_rows'] = nrec
    check.extra['constants'] = consts
    check.assumptions += ['attribute names used are not methods of builtin types',
                          'leaf strings limited to "", "s", "uv" (TLC cannot index strings)',
                          'TLC, the Json community module and the codec are trusted']
    return check.finish(rule='TLC enumerates every (spine target, step sequence) within the constants; '
                        'each is replayed in every admissible spelling on plain and logging containers; '
                        'non-trivial = at least one step; distinct by TLC state fingerprint',
                        exhaustive=True)
