"""C12  delete removes exactly the addressed element, or nothing.

Specification: spec/GlomMutate.tla (machine FetchParent.. -> Del with the heap as a variable,
deletion faults as environment choices; law RefDelete: Python del on a present element,
PathDeleteError for a missing final key / index / attribute, PathAccessError for a missing
parent, both ignored under ignore_missing, heap unchanged in every case but success -- for
every addressing style alike; state laws NoEarlyWrite / AttachLast / DelFrame; spec/MC_C12.cfg).
spec -> code: every case of the bounded universe (MC_C12_cases.cfg) is replayed on real
objects in every spelling (dotted string, Path, Path mixing T steps, T[..]/T.attr, S-rooted)
on plain builtins and on write-logging / faulting containers: outcome, error class, returned
object identity, final heap, write log.
code -> spec: random object graphs (sharing, cycles), longer paths, random faults and
ignore_missing; TLC (spec/Trace_C12.tla) steps the machine through each recorded write log and
evaluates the law on the recorded outcome, heap and log.
"""
import c11_lib as lib

PROP = 'C12'
KIND = 'delete'
MC = 'MC_C12'
TRACE = 'Trace_C12'

_ALL = '{"dict","idict","list","tuple","obj"}'
TIERS = {
    'quick': dict(Mutant='"none"', MaxSpine='1', LevelClasses=_ALL, LeafOpts='{"none","str","edict","fset"}',
                  SideOpts='{"absent","shared","none"}', Alpha='"small"', Alpha3='"p"', Stars='"no"'),
    'thorough': dict(Mutant='"none"', MaxSpine='2', LevelClasses=_ALL,
                     LeafOpts='{"none","edict","fset"}',
                     SideOpts='{"absent","shared","empty"}', Alpha='"small"', Alpha3='"p"', Stars='"no"'),
}
# wildcard paths: '*' among the parent segments, del at every match in order
STAR = {
    'quick': dict(Mutant='"none"', MaxSpine='2', LevelClasses='{"dict","list"}', LeafOpts='{"none","edict"}',
                  SideOpts='{"mixobj","mixlist"}', Alpha='"small"', Alpha3='"none"', Stars='"only"'),
    'thorough': dict(Mutant='"none"', MaxSpine='2', LevelClasses='{"dict","list","tuple","obj"}',
                     LeafOpts='{"none","edict"}', SideOpts='{"none","shared","mixobj","mixdict","mixlist"}',
                     Alpha='"small"', Alpha3='"none"', Stars='"only"'),
}
# '**' paths over targets with twin branches (equal, distinct containers at several depths)
DEEP = {
    'quick': dict(Mutant='"none"', MaxSpine='3', LevelClasses='{"dict"}', LeafOpts='{"none","edict"}',
                  SideOpts='{"twin"}', Alpha='"small"', Alpha3='"none"', Stars='"deep"'),
    'thorough': dict(Mutant='"none"', MaxSpine='3', LevelClasses='{"dict","list"}', LeafOpts='{"none","edict"}',
                     SideOpts='{"twin"}', Alpha='"small"', Alpha3='"none"', Stars='"deep"'),
}
THOROUGH_WIDE = dict(Mutant='"none"', MaxSpine='1', LevelClasses=_ALL,
                     LeafOpts='{"none","str","edict","elist","fset"}',
                     SideOpts='{"absent","none","shared","empty"}', Alpha='"full"', Alpha3='"small"', Stars='"no"')
MUTANT_UNIVERSE = dict(MaxSpine='1', LevelClasses='{"dict","list","obj"}', LeafOpts='{"none","edict"}',
                       SideOpts='{"absent","shared"}', Alpha='"small"', Alpha3='"p"', Stars='"no"')
COVERAGE_UNIVERSE = dict(MaxSpine='1', LevelClasses='{"dict","list"}', LeafOpts='{"edict"}', SideOpts='{"absent"}',
                         Alpha='"small"', Alpha3='"p"', Stars='"also"')
MUTANTS = {'catch_index_only': ('Outcome',), 'ignore_skips_delete': ('Outcome', 'DelFrame'),
           'catch_typeerror': ('Outcome',)}
NRANDOM = {'quick': 8000, 'thorough': 80000}

ASSUMPTIONS = [
    'container classes dict / list / tuple / frozenset / set / attribute objects; OrderedDict is excluded '
    '(its instances accept arbitrary attributes, which the abstract heap does not model)',
    '"missing" is read from the statement: a key absent from a mapping, an integer index out of range of a list, '
    'an attribute absent from the value addressed attribute-style.  A final T[..] / T.attr step whose del / delattr '
    'raises anything else (item deletion on a tuple / str / None, wrong index type, raising __delitem__ / __delattr__) '
    'must let that error propagate as itself, ignore_missing or not, target unchanged.  For a final path segment the '
    'documentation reports handler failures as PathDeleteError and does not say whether ignore_missing covers them: '
    'then an error is required unless ignore_missing is set (either outcome accepted), target unchanged',
    'the read-only property "r" is only addressed as the final segment; attribute names are not methods of builtins',
    'faults are injected with subclasses (raising __delitem__/__delattr__, read-only property); at most one faulty '
    'cell per case',
    'registries / short-lived classes: as for C11 (path-segment deletions also through a Glommer with its own '
    'tagged handlers; every 12th case on classes made with type() after other classes were collected)',
    'wildcards * and ** among the parent segments; matches are deleted in order with Python semantics (an earlier '
    'deletion is visible to a later match); a wildcard case in which some match fails through a path-segment handler '
    'in a way that is not "missing" is not judged; sets are only enumerated when their order is determined',
    'realisation variants: every logging-mode case is replayed once more in one of (rotating) falsy containers / '
    'objects with pass-through __getitem__ / __iter__ / __len__ overrides, hostile __eq__ (always True; raising), '
    'reordered OrderedDicts (cases without attribute steps: an OrderedDict accepts attributes), namedtuples, classes '
    'made with type() after others were collected, and the spec object evaluated twice with the first target and '
    'everything made for it mutated in between; a slotted object (flag "slots") only on wildcard-free paths; numeric '
    'keys that are equal across types (1 / 1.0 / True) are not modelled (abstract keys are compared structurally)',
    'TLC, the Json community module and the codec are trusted',
]


def match_finding(f, info):
    """No known finding is open for C12 (the historic T[key] defect is repaired in glom, ee4e325, and
    lives on as the spec mutant catch_index_only): every disagreement is a VIOLATION."""
    return False


DRIVER = lib.Driver(PROP, KIND, MC, TRACE, need=['Choose', 'A_FetchParent', 'A_Del'],
                    match=match_finding, match_rows=match_finding,
                    mutants=MUTANTS, mutant_universe=MUTANT_UNIVERSE, coverage_universe=COVERAGE_UNIVERSE)

RULE = ('TLC enumerates every (target spine, path, ignore_missing, deletion fault) within the constants and explores '
        'every step of the machine; each terminal case is replayed in every spelling on plain and on write-logging '
        'containers; non-trivial = the parent exists so that a deletion is attempted, or the call succeeds; '
        'distinct by TLC state fingerprint')


def main(tier, seed):
    universes = [(tier, TIERS[tier]), (tier + '-star', STAR[tier], tier == 'thorough'),
                 (tier + '-deep', DEEP[tier], tier == 'thorough')]
    if tier == 'thorough':
        universes.append(('thorough-wide', THOROUGH_WIDE))
    return DRIVER.main(tier, seed, universes, NRANDOM[tier], ASSUMPTIONS, RULE)


def replay(path):
    return DRIVER.replay(path)
