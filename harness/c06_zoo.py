"""The spec-object zoo (hardening of C06 / C20, class (c) of the generic hardening list).

Every constructor of the library that can hold state appears here at least once as ONE spec
object that is evaluated repeatedly - sequentially with the returned results MUTATED in
between (C06), with a second evaluation of the very same object running entirely inside the
first one's user-callable (two real threads under the deterministic scheduler, and
re-entrantly from the callable itself; C20) - and every single evaluation is compared with
the same evaluation made first in a fresh interpreter on a freshly built object (value,
error class, error text, iterator pulls; target / spec / repr unchanged unless the spec is a
mutation spec).  The law is the one of C06 / C20; the oracle is differential (no model of the
constructors' semantics is needed, so the zoo can be broad): Invoke, Call, Spec (+ Spec.glom),
Coalesce, Vars, Ref, Iter and each stage, First, Group and each aggregator, Fold / Sum /
Flatten / Merge / Count, Match / Switch / Or / And / Not / Check / Optional defaults / Regex,
Assign / Delete, Fill / Auto, Inspect, Pipe, Val, T with container arguments, Path, S.

Targets deliberately include falsy-but-meaningful values (0, '', (), [], {}, False, None),
falsy container subclasses holding data, OrderedDict / list / dict subclasses overriding
item access and iteration, a namedtuple, a slotted object, equal-but-distinct values and
one-shot iterators that count pulls and raise when pulled after exhaustion.
"""
import collections
import random
import threading

import glom
from glom import (A, Assign, Auto, Call, Check, Coalesce, Delete, Fill, Flatten, Fold, Inspect, Invoke, Iter, M,
                  Match, Merge, Optional, Or, And, Not, Path, Pipe, Ref, Regex, S, Spec, Sum, Switch, T, Val, Vars)
from glom.grouping import Group, First as GFirst, Avg, Max, Min, Limit
from glom.reduction import Count

import codec
import c06_build as B


# ---- hooks: the user code inside the specs -----------------------------------------------------
class ZCtx(B.Ctx):
    """gate_fn: yield point (scheduler / free-running); local.reenter: callable run once from
    inside the first hook of an evaluation (re-entrant evaluation of the same object)"""

    def hook(self):
        loc = self.local
        fn = getattr(loc, 'reenter', None)
        if fn is not None and not getattr(loc, 'inside', False):
            loc.reenter = None
            loc.inside = True
            try:
                fn()
            finally:
                loc.inside = False
        self.gate()


class Hook:
    """custom spec: identity, after running the user code"""

    def __init__(self, ctx):
        self.ctx = ctx

    def glomit(self, target, scope):
        self.ctx.hook()
        return target

    def __repr__(self):
        return 'Hook()'


class HookFn:
    """plain callable: identity (ret=None) or a fixed answer, after running the user code"""

    def __init__(self, ctx, ret=None):
        self.ctx, self.ret = ctx, ret

    def __call__(self, *a, **kw):
        self.ctx.hook()
        return a[0] if self.ret is None else self.ret

    def __repr__(self):
        return 'HookFn(%r)' % (self.ret,)


# ---- targets -----------------------------------------------------------------------------------
class OneShot:
    """one-shot iterator: counts pulls; being pulled again after it reported exhaustion is a fault"""

    def __init__(self, items):
        self.items, self.i, self.pulls, self.ended = list(items), 0, 0, False

    def __iter__(self):
        return self

    def __next__(self):
        self.pulls += 1
        if self.i < len(self.items):
            self.i += 1
            return self.items[self.i - 1]
        if self.ended:
            raise RuntimeError('one-shot iterator pulled after exhaustion')
        self.ended = True
        raise StopIteration


FList, FDict, FTuple = codec._falsy(list), codec._falsy(dict), codec._falsy(tuple)


class SubList(list):
    """list subclass overriding item access and iteration (same meaning)"""

    def __getitem__(self, i):
        return list.__getitem__(self, i)

    def __iter__(self):
        return iter([list.__getitem__(self, i) for i in range(len(self))])


class SubDict(dict):
    def __getitem__(self, k):
        return dict.__getitem__(self, k)

    def __iter__(self):
        return iter(list(dict.keys(self)))

    def keys(self):
        return list(dict.keys(self))


def odict_reordered(pairs):
    """an OrderedDict whose own order differs from the insertion order of the raw dict"""
    od = collections.OrderedDict(pairs)
    if len(od) > 1:
        od.move_to_end(next(iter(od)))
    return od


Pair = collections.namedtuple('Pair', 'a b')


class Slotted:
    __slots__ = ('a', 'b')

    def __init__(self, a, b):
        self.a, self.b = a, b


class Obj:
    def __init__(self, **kw):
        self.__dict__.update(kw)


class FalsyObj(Obj):
    def __bool__(self):
        return False


class EqAll:
    """hostile __eq__: equal to everything"""
    def __eq__(self, other):
        return True

    def __ne__(self, other):
        return False

    def __hash__(self):
        return 7

    def __repr__(self):
        return 'EqAll()'


class EqRaise:
    """hostile __eq__: refuses foreign operands"""
    def __eq__(self, other):
        if type(other) is not EqRaise:
            raise TypeError('cannot compare')
        return self is other

    def __hash__(self):
        return 11

    def __repr__(self):
        return 'EqRaise()'


# ---- projection of arbitrary results --------------------------------------------------------------
def gproject(o, depth=0):
    if depth > 8:
        return ('deep',)
    if o is None or isinstance(o, (bool, int, float, str, bytes)):
        return ('v', type(o).__name__, repr(o))
    t = type(o)
    if isinstance(o, OneShot):
        return ('oneshot', tuple(gproject(x, depth + 1) for x in o.items), o.pulls)
    if isinstance(o, (EqAll, EqRaise)):
        return ('hostile', t.__name__)
    if isinstance(o, dict):
        return ('dict', t.__name__, tuple((gproject(k, depth + 1), gproject(v, depth + 1)) for k, v in dict.items(o)))
    if isinstance(o, (list, tuple)):
        return ('seq', t.__name__, tuple(gproject(x, depth + 1) for x in (list.__iter__(o) if isinstance(o, list) else tuple.__iter__(o))))
    if isinstance(o, (set, frozenset)):
        return ('set', t.__name__, tuple(sorted(repr(gproject(x, depth + 1)) for x in o)))
    if isinstance(o, Slotted):
        return ('slotted', gproject(o.a, depth + 1), gproject(o.b, depth + 1))
    d = getattr(o, '__dict__', None)
    if isinstance(o, (Obj, glom.core.ScopeVars)) and isinstance(d, dict):
        return ('obj', t.__name__, tuple((k, gproject(v, depth + 1)) for k, v in sorted(d.items())))
    if hasattr(o, '__next__'):
        return ('iterator', tuple(gproject(x, depth + 1) for x in o))
    return ('other', t.__name__, B.scrub(repr(o))[:200])


_private = B._private
_reachable = B.reachable_ids


def mutate_result(res, owned):
    """scribble over what the call handed out: containers the caller now owns (not reachable from
    the target or the spec)"""
    def scribble(o, depth):
        if id(o) in owned or depth > 3:
            return
        try:
            if type(o) is list or isinstance(o, list):
                for x in list(list.__iter__(o)):
                    scribble(x, depth + 1)
                list.append(o, '<scribble>')
            elif isinstance(o, dict):
                for v in list(dict.values(o)):
                    scribble(v, depth + 1)
                dict.__setitem__(o, '<scribble>', 1)
            elif isinstance(o, set):
                o.add('<scribble>')
            elif isinstance(o, tuple):
                for x in o:
                    scribble(x, depth + 1)
        except Exception:   # noqa: scribbling is best effort
            pass
    scribble(res, 0)


# ---- the zoo ---------------------------------------------------------------------------------------
def kw_items(**kw):
    return sorted(kw.items())


def as_list(*a):
    return list(a)


def append_item(acc, x):
    return acc + [x]


def is_pos(x):
    return type(x) is int and x > 0


L1 = lambda: [1, 2, 0, 3, 3]          # noqa: E731
L0 = lambda: []                       # noqa: E731
LZ = lambda: [0]                      # noqa: E731
LG = lambda: OneShot([2, 0, 2, 5])    # noqa: E731
LF = lambda: FList([4, 0, 4])         # noqa: E731
LS = lambda: SubList([7, 8])          # noqa: E731
D1 = lambda: {'a': 1, 'b': [1], 'o': {'x': [1]}, 'kid': {'v': 2, 'kid': {'v': 3}}, 'v': 1}          # noqa: E731
D2 = lambda: {'a': 0, 'b': [], 'o': {}, 'v': ''}                                                    # noqa: E731
D3 = lambda: SubDict({'a': False, 'b': FList([9]), 'o': FDict({'y': 2}), 'v': None})                # noqa: E731
D4 = lambda: odict_reordered([('a', Pair(1, 2)), ('b', [EqAll()]), ('o', {'k': EqRaise()}), ('v', ())])   # noqa: E731
O1 = lambda: Obj(a=1, b=[2], o={'x': 1}, v=0)                                                       # noqa: E731
O2 = lambda: FalsyObj(a=Slotted(1, 2), b=(), o={}, v=1.0)                                           # noqa: E731
LL = lambda: [[1], [], [2, 3]]        # noqa: E731
LL2 = lambda: [[1], [2], [3, 4], [5, 6], [7]]    # noqa: E731
LLG = lambda: OneShot([[1], FList([5]), ()])     # noqa: E731
LT = lambda: [(1,), (), FTuple((2, 3))]    # noqa: E731
LD = lambda: [{'a': 1}, {}, {'b': 2, 'a': 3}]    # noqa: E731
LDS = lambda: [SubDict({'a': 0}), odict_reordered([('z', 1), ('a', 2)])]    # noqa: E731
DN1 = lambda: {'a': 1, 'n': {'m': {}}}      # noqa: E731
DN2 = lambda: {'a': 2, 'n': {}}             # noqa: E731
S1 = lambda: 'ab'                     # noqa: E731
N1 = lambda: 5                        # noqa: E731
N0 = lambda: 0                        # noqa: E731
DICTS = [D1, D2, D3, D4, O1, O2]
LISTS = [L1, L0, LZ, LG, LF, LS]


def _entries(h, hf, hp, hfalse, hmk, lit):
    """name -> (spec factory result, target factories, options).  h: Hook spec, hf: identity
    callable, hp: callable answering True, hfalse: callable answering False"""
    E = collections.OrderedDict()
    hf_len = lambda x: (hf(x), len(x))[1]     # noqa: E731  (a key function that runs the user code)

    def add(name, spec, targets, **opt):
        E[name] = (spec, targets, opt)
    # -- core
    add('invoke', Invoke(kw_items).constants(c=1).specs(a=(h, 'a')).star(kwargs='o').constants(d=lit([])), DICTS)
    add('invoke-args', Invoke(as_list).specs((h, 'a'), 'b').star(args='b').constants(0, '', lit({})), DICTS)
    add('call', Call(as_list, args=(T['a'], Spec((h, 'b'))), kwargs={}), DICTS)
    add('call-kwargs', Call(kw_items, kwargs={'x': Spec((h, 'a')), 'y': [T['v']]}), DICTS)
    add('spec', Spec((h, {'r': 'a', 'lit': Val([])}), scope={'z': 5}), DICTS)
    add('spec-glom', Spec((h, Coalesce(S['z'], default='unbound'))), DICTS,
        call=lambda sp, t, i: sp.glom(t, scope={'z': t} if i % 2 == 0 else {}))
    add('coalesce', Coalesce((h, 'zz'), 'a', default=[T['b']]), DICTS)
    add('coalesce-skip', Coalesce((h, 'a'), 'v', 'b', skip=(0, '', None), default_factory=dict), DICTS)
    add('coalesce-skipfn', Coalesce('a', (h, 'v'), skip=lambda v: not v, default={'d': T['o']}), DICTS)
    add('vars', (S(v=Vars({'n': 0}, m=[])), 'b', [A.v.n], h, S.v), DICTS)
    add('vars-plain', (S(v=Vars({'n': 0})), 'b', [A.v.n], h, S.v.n), DICTS)
    add('vars-empty', (S(v=Vars()), 'b', [A.v.last], h, Coalesce(S.v.last, default='nothing')), DICTS)
    add('s-literals', (S(seen={}, acc=[], n=0), A.seen['k'], h, (S.seen, S.acc, S.n)), DICTS)
    add('s-globals', (A.globals.g, h, S.globals.g), DICTS)
    add('ref', Ref('r', (h, Coalesce(('kid', Ref('r')), 'v'))), DICTS)
    add('ref-dict', {'first': Coalesce(('kid', Ref('val')), default='undefined'), 'second': Ref('val', (h, 'v'))}, DICTS)
    add('pipe', Pipe(h, 'b', [hf], list), DICTS)
    add('val-literal', {'lit': Val({'k': []}), 'copy': (h, 'b')}, DICTS)
    add('t-container-arg', (h, T['b'] + [T['a']]), DICTS)
    add('t-method-arg', (h, T['o'].get('x', [T['a']])), [D1, D2, D3])
    add('path', (h, Path('o', T['x'])), DICTS)
    add('string-paths', {'p': 'o.x', 'q': (h, 'kid.kid.v'), 's': '*'}, DICTS)
    add('list-spec', ('b', [(h, T)]), DICTS)
    add('dict-spec', {'x': (h, 'a'), 'y': {'z': 'v'}}, DICTS)
    add('fill', Fill({'k': Spec((h, 'a')), 'lit': [T['a'], 'str', ()], T['v']: 0}), [D1, D2, D4, O1])
    add('fill-auto', Fill([Auto((h, 'a')), {Auto('v')}]), [D1, D2, O1])
    add('auto', Auto((h, 'b', [T])), DICTS)
    add('inspect', Inspect((h, 'a'), echo=False), DICTS)
    # one class, two kinds of instances: data (no glomit) in a Fill, a spec (instance glomit) elsewhere
    add('instance-data', Fill({'tag': InstSpec(), 'k': Spec((h, 'a'))}), DICTS)
    add('instance-spec', (h, 'a', InstSpec(_inst_handler)), DICTS)
    add('instance-data-2', (h, Fill([InstSpec()])), [D1, D2])
    # -- streaming
    it = lambda: Iter((h, T))     # noqa: E731
    add('iter-map', it().map(hf).all(), LISTS)
    add('iter-filter', it().filter().all(), LISTS)
    add('iter-filter-fn', it().filter(hp).all(), LISTS)
    add('iter-chunked', it().chunked(2).all(), LISTS)
    add('iter-chunked-fill', it().chunked(2, fill=0).all(), LISTS)
    add('iter-windowed', it().windowed(2).all(), LISTS)
    add('iter-split', it().split(0).all(), LISTS)
    add('iter-split-max', it().split(0, maxsplit=1).all(), LISTS)
    add('iter-flatten', Iter((h, T)).flatten().all(), [LL, LLG, L0])
    add('iter-unique', it().unique().all(), LISTS)
    add('iter-unique-key', it().unique(hf).all(), LISTS)
    add('iter-slice', it().slice(1, 3).all(), LISTS)
    add('iter-slice0', it().slice(0).all(), LISTS)
    add('iter-limit', it().limit(2).all(), LISTS)
    add('iter-limit0', it().limit(0).all(), LISTS)
    add('iter-takewhile', it().takewhile(hp).all(), LISTS)
    add('iter-takewhile-t', it().takewhile().all(), LISTS)
    add('iter-dropwhile', it().dropwhile(hfalse).all(), LISTS)
    add('iter-first', it().first(), LISTS)
    add('iter-first-key', it().first(is_pos, default=lit([])), LISTS)
    add('iter-bare', it(), LISTS, call=lambda sp, t, i: list(glom.glom(t, sp)))
    add('iter-chain', it().filter(hp).map(hf).chunked(2).limit(2).all(), LISTS)
    # -- grouping
    add('group-list', Group([h]), LISTS)
    add('group-dict', Group({hf: [T]}), LISTS)
    add('group-nested', Group({is_pos: {hf: [T]}}), LISTS)
    add('group-first', Group(GFirst()), LISTS)
    add('group-avg', Group({hf: Avg()}), [L1, LZ, LG, LS])
    add('group-max', Group(Max()), [L1, LZ, LG, LF])
    add('group-min', Group({is_pos: Min()}), [L1, LZ, LG, LF])
    add('group-sum', Group({hf: Sum()}), LISTS)
    add('group-count', Group(Count()), LISTS)
    add('group-flatten', Group(Flatten()), [LL, LLG, L0])
    add('group-merge', Group(Merge()), [LD, LDS, L0])
    add('group-keyed-flatten', Group({len: Flatten()}), [LL2, LL, L0])      # list values, two members per group
    add('group-keyed-sumlist', Group({len: Sum(init=list)}), [LL2, LL, L0])
    add('group-keyed-fold', Group({hf_len: Fold(T, init=list)}), [LL2, L0])
    add('group-limit', Group(Limit(2, [h])), LISTS)
    add('group-limit0', Group(Limit(0)), LISTS)
    add('group-stop-dict', Group({Val(glom.STOP): [T]}), LISTS)
    add('group-stop-limit', Group(Limit(3, {Val(glom.STOP): [h]})), LISTS)
    add('group-dict-t', Group({T: [T]}), [L0, L1, LZ])
    add('group-limit-dict', Group(Limit(3, {hf: Limit(1)})), LISTS)
    # -- reduction
    add('fold', Fold((h, T), init=list, op=append_item), LISTS)
    add('fold-op', Fold(T, init=list, op=lambda acc, x: hf(acc) + [x]), LISTS)
    add('sum', Sum((h, T)), LISTS)
    add('sum-init', Sum(init=lambda: 5), LISTS)
    add('count', Count(), LISTS)
    add('flatten', Flatten((h, T)), [LL, LLG, L0])
    add('flatten-init', Flatten(init=tuple), [LT, L0])
    add('merge', Merge((h, T)), [LD, LDS, L0])
    add('merge-init', Merge(init=collections.OrderedDict), [LD, LDS, L0])
    # -- matching
    add('match-dict', Match({'a': Or(And(hp, int), Pair), Optional('zz', default=[]): list, str: object}), DICTS)
    add('match-default', Match({'a': str}, default={'d': []}), DICTS)
    add('match-list', ('b', Match([And(hp, Or(int, EqAll))])), DICTS)
    add('or', (h, 'a', Match(Or(1, 0, False, default=[]))), DICTS)
    add('and', ('a', Match(And(hp, int, M >= 0, default='no'))), DICTS)
    add('not', ('v', Match(Not(And(hp, str)), default=())), DICTS)
    add('m-expr', ('a', Match(Or(M == 1, M == 0), default=None)), DICTS)
    add('switch', ('a', Match(Switch([(And(hp, 1), Auto((h, Val(['one'])))), (0, Val([]))], default={'none': T}))), DICTS)
    add('switch-dict', ('a', Match(Switch({1: Val('one'), 0: Auto((h, Val('zero')))}, default=Val('other')))), DICTS)
    add('check', ('a', Check(type=int, validate=hp, default=[])), DICTS)
    add('check-raise', ('a', Check(equal_to=1, validate=(hp, is_pos))), DICTS)
    add('check-oneof', ('v', Check(one_of=(1, 0, ''), default=Val({}))), DICTS)
    add('regex', ('v', Match(Regex('a|'), default=[])), DICTS + [S1])
    # -- mutation (the target is meant to change: compared with the fresh interpreter, not frozen)
    add('assign', Assign('o.k', Spec((h, 'a')), missing=dict), DICTS, mutates=True)
    add('assign-t', (h, Assign(T['o']['x'], [T['a']])), [D1, D2, D3], mutates=True)
    add('assign-missing', Assign('n.m.l', Val([]), missing=dict), [D1, D2, D3], mutates=True)
    add('assign-missing-factory', Assign('n.m.l', Spec('a'), missing=hmk), [D1, DN1, DN2, D2], mutates=True)
    add('assign-missing-t', Assign(T['n']['m']['l'], Val(1), missing=hmk), [D1, DN1, DN2], mutates=True)
    add('delete', (h, Delete('o.x', ignore_missing=True)), DICTS, mutates=True)
    add('delete-raise', Delete('o.x'), DICTS, mutates=True)
    return E


NOT_IN_ZOO = {'Sample': 'random by design: its outcome is not a function of target and spec',
              'Inspect(echo=True / breakpoint / post_mortem)': 'writes to stdout / starts pdb'}


class InstSpec:
    """a class whose instances are specs only when they were GIVEN a glomit (an instance
    attribute): one instance is plain data, another one of the same class is a spec"""

    def __init__(self, handler=None):
        if handler is not None:
            self.glomit = handler

    def __repr__(self):
        return 'InstSpec(%s)' % ('handler' if 'glomit' in self.__dict__ else '')


def _inst_handler(target, scope):
    return ('handled', target)


class HookFactory:
    """a `missing=` factory: runs the user code, then makes a new dict"""

    def __init__(self, ctx):
        self.ctx = ctx

    def __call__(self):
        self.ctx.hook()
        return {}

    def __repr__(self):
        return 'HookFactory()'


class Zoo:
    """one set of spec OBJECTS (built once, used for every evaluation of this Zoo)"""

    def __init__(self):
        self.ctx = ZCtx()
        self.user_literals = set()
        self._keep = []

        def lit(x):
            """a mutable container the USER passes to a constructor that stores it privately"""
            self._keep.append(x)
            _reachable(x, self.user_literals)
            return x
        self.E = _entries(Hook(self.ctx), HookFn(self.ctx), HookFn(self.ctx, True), HookFn(self.ctx, False),
                          HookFactory(self.ctx), lit)
        for spec, _, _ in self.E.values():
            B.register_baseline(spec)

    def names(self):
        return list(self.E)

    def ntargets(self, name):
        return len(self.E[name][1])

    def evaluate(self, name, ti, scribble=True):
        """one evaluation of the entry's object on a fresh copy of target ti: abstract record"""
        spec, targets, opt = self.E[name]
        target = targets[ti]()
        call = opt.get('call') or (lambda sp, t, i: glom.glom(t, sp))
        before_t, before_s = B.snapshot(target), (B.snapshot(spec), B.scrub(repr(spec)))
        # what the caller may NOT scribble over: the target, the public value of the spec and the
        # containers the user passed to the constructors.  A container that glom created itself and keeps
        # in a private attribute of a spec object is NOT the user's: if it is handed out as a result,
        # scribbling over it shows in the next evaluation
        owned = set(self.user_literals)
        _reachable(target, owned)
        _reachable(spec, owned, public_only=True)
        rec = dict(name=name, ti=ti)
        try:
            res = call(spec, target, ti)
            rec.update(ok=True, v=gproject(res), cls='', text='')
        except Exception as e:      # noqa: the class and text are the observation
            try:
                text = B.scrub(str(e))
            except Exception as e2:   # noqa
                text = '<str failed %r>' % (e2,)
            rec.update(ok=False, v=None, cls=B.error_class(e), text=text)
            res = None
        rec['target_after'] = gproject(target)
        rec['frame'] = []
        if not opt.get('mutates') and not isinstance(target, OneShot) and B.snapshot(target) != before_t:
            rec['frame'].append('target')
        if (B.snapshot(spec), B.scrub(repr(spec))) != before_s:
            rec['frame'].append('spec')
        if scribble and res is not None:
            mutate_result(res, owned)
        return rec


def comparable(rec):
    return {k: rec[k] for k in ('ok', 'v', 'cls', 'text', 'target_after', 'frame')}


def fresh(name, ti):
    """(in a pristine child) the evaluation made first, on freshly built objects"""
    import warnings
    warnings.simplefilter('ignore')
    return comparable(Zoo().evaluate(name, ti, scribble=False))


# ---- C06: one object, repeated evaluations, results scribbled over in between ---------------------
def sequential(names, plan):
    """(in a pristine child) plan: list of (name, ti); returns the records in order"""
    import warnings
    warnings.simplefilter('ignore')
    zoo = Zoo()
    return [comparable(zoo.evaluate(n, ti)) for n, ti in plan if n in names]


# ---- C20: a second evaluation of the same object inside the first one's user code -----------------
def reentrant(name, ti, tj):
    """(in a pristine child) evaluate (name, ti); from inside its first hook evaluate (name, tj)
    on the same object.  Returns (outer, inner-or-None)"""
    import warnings
    warnings.simplefilter('ignore')
    zoo = Zoo()
    inner = []
    zoo.ctx.local.reenter = lambda: inner.append(comparable(zoo.evaluate(name, tj)))
    outer = comparable(zoo.evaluate(name, ti))
    zoo.ctx.local.reenter = None
    return outer, (inner[0] if inner else None)


def threaded(name, ti, tj):
    """(in a pristine child) thread 1 evaluates (name, ti) and parks in its first hook; thread 2
    evaluates (name, tj) on the same object to completion; thread 1 goes on.  Returns both."""
    import warnings
    from c20_sched import Sched
    warnings.simplefilter('ignore')
    zoo = Zoo()
    sched = Sched(zoo.ctx, 2)
    sched.begin(1, lambda: comparable(zoo.evaluate(name, ti)))
    sched.begin(2, lambda: comparable(zoo.evaluate(name, tj)))
    guard = 0
    while not sched.done[2] and guard < 10000:
        sched.step(2)
        guard += 1
    while not sched.done[1] and guard < 20000:
        sched.step(1)
        guard += 1
    sched.drain()
    for p in (1, 2):
        if sched.error[p] is not None:
            raise sched.error[p]
    return sched.result[1], sched.result[2]


def free_threads(seed, nthreads, ncalls):
    """(in a pristine child) threads evaluate random entries of ONE zoo freely"""
    import sys
    import time
    import warnings
    warnings.simplefilter('ignore')
    zoo = Zoo()
    rng = random.Random(seed)
    names = zoo.names()
    plans = [[(n, rng.randrange(zoo.ntargets(n))) for n in (rng.choice(names) for _ in range(ncalls))] for _ in range(nthreads)]
    # pairs of threads hammer the same entries
    for p in plans[1:]:
        p[: ncalls // 2] = [(n, rng.randrange(zoo.ntargets(n))) for n, _ in plans[0][: ncalls // 2]]
    delays = [rng.random() < 0.4 for _ in range(499)]
    counter = [0]

    def gate():
        counter[0] += 1
        if delays[counter[0] % 499]:
            time.sleep(0)
    zoo.ctx.gate_fn = gate
    out, errs = [], []
    old = sys.getswitchinterval()
    sys.setswitchinterval(1e-6)
    barrier = threading.Barrier(nthreads)

    def body(plan):
        try:
            barrier.wait()
            for n, ti in plan:
                out.append((n, ti, comparable(zoo.evaluate(n, ti))))
        except BaseException as e:     # noqa
            errs.append(repr(e))
    try:
        ts = [threading.Thread(target=body, args=(p,)) for p in plans]
        for t in ts:
            t.start()
        for t in ts:
            t.join(1800)
    finally:
        sys.setswitchinterval(old)
    return out, errs


# ---- drivers (called from c06.main / c20.main) ---------------------------------------------------------
def _names_and_targets():
    z = Zoo()
    return [(n, z.ntargets(n)) for n in z.names()]


def _oracle_chunk(jobs):
    from c06 import in_child
    return [((n, ti), in_child(fresh, n, ti)) for n, ti in jobs]


def _pool_map(fn, chunks):
    import multiprocessing as mp
    import vlib
    with mp.get_context('fork').Pool(vlib.NCPU) as p:
        return list(p.imap_unordered(fn, chunks))


def oracle_table(entries):
    jobs = [(n, ti) for n, k in entries for ti in range(k)]
    n = 48
    table = {}
    for part in _pool_map(_oracle_chunk, [jobs[i::n] for i in range(n) if jobs[i::n]]):
        table.update(part)
    return table


def _seq_chunk(plans):
    from c06 import in_child
    return [(plan, in_child(sequential, {n for n, _ in plan}, plan)) for plan in plans]


def _report(check, matcher, kind, detail, got, want):
    diff = [k for k in want if got.get(k) != want[k]]
    if got.get('frame'):
        why = 'zoo %s: %s changed (structure or identity) during the evaluation' % (kind, got['frame'])
    else:
        why = 'zoo %s: %s differ(s) from the same evaluation made first in a fresh interpreter' % (kind, diff)
    check.violation(dict(kind='zoo', mode=kind, detail=detail, observed=repr(got)[:1500], fresh=repr(want)[:1500]),
                    '%s [%s]' % (why, detail), matcher=matcher)


def run_c06(check, tier, seed, matcher):
    """sequential reuse of every zoo object, results scribbled over in between"""
    entries = _names_and_targets()
    table = oracle_table(entries)
    rng = random.Random(seed)
    plans = []
    for n, k in entries:                                   # each object alone: every target, twice
        plans.append([(n, ti) for ti in range(k)] * 2)
    order = [(n, ti) for n, k in entries for ti in (0, k - 1)]
    plans.append(order)                                      # all objects in one interpreter, in definition order ...
    plans.append(order[::-1])                                # ... and in reverse
    for _ in range({'quick': 8, 'thorough': 200}[tier]):     # all objects mixed in one interpreter
        plan = [(n, rng.randrange(k)) for n, k in entries for _ in range(2)]
        rng.shuffle(plan)
        plans.append(plan)
    nchunks = 48
    ncalls = nbad = 0
    for part in _pool_map(_seq_chunk, [plans[i::nchunks] for i in range(nchunks) if plans[i::nchunks]]):
        for plan, recs in part:
            for i, ((n, ti), got) in enumerate(zip(plan, recs)):
                ncalls += 1
                if got != table[(n, ti)] or got['frame']:      # (the frame condition is absolute, not relative)
                    nbad += 1
                    _report(check, matcher, 'sequential', dict(entry=n, target=ti, position=i, plan=plan[:i + 1][-12:]), got, table[(n, ti)])
    check.cov['evaluations'] += ncalls
    check.cov['distinct_nontrivial'] += ncalls - len(plans)
    check.validated(len(plans) - min(nbad, len(plans)))
    check.extra['zoo'] = dict(spec_objects=len(entries), object_target_pairs=len(table), sequential_histories=len(plans),
                              sequential_evaluations=ncalls, not_in_zoo=NOT_IN_ZOO)
    check.sample(dict(kind='zoo-sequential', entry=entries[0][0], plan=plans[0][:4], fresh=repr(table[(entries[0][0], 0)])[:300]), limit=8)


def _c20_chunk(jobs):
    from c06 import in_child
    out = []
    for mode, n, ti, tj in jobs:
        if mode == 'threads':
            out.append((mode, n, ti, tj, in_child(threaded, n, ti, tj)))
        else:
            out.append((mode, n, ti, tj, in_child(reentrant, n, ti, tj)))
    return out


def _free_chunk(seeds):
    from c06 import in_child
    return [(s, in_child(free_threads, s, 3, 14)) for s in seeds]


def run_c20(check, tier, seed, matcher):
    """a second evaluation of the same object inside the first one's user code: from another
    thread (deterministic schedule), re-entrantly, and under free-running threads"""
    import vlib
    entries = _names_and_targets()
    table = oracle_table(entries)
    jobs = []
    for n, k in entries:
        pairs = [(ti, (ti + 1) % k) for ti in range(k)] if tier == 'quick' else [(ti, tj) for ti in range(k) for tj in range(k)]
        for ti, tj in pairs:
            jobs.append(('threads', n, ti, tj))
            jobs.append(('reentrant', n, ti, tj))
    nchunks = 64
    ninside = 0
    for part in _pool_map(_c20_chunk, [jobs[i::nchunks] for i in range(nchunks) if jobs[i::nchunks]]):
        for mode, n, ti, tj, res in part:
            outer, inner = res
            check.cov['evaluations'] += 1 + (inner is not None)
            if inner is not None:
                ninside += 1
                check.cov['distinct_nontrivial'] += 1
            bad = False
            if outer != table[(n, ti)] or outer['frame']:
                bad = True
                _report(check, matcher, mode + ' (outer)', dict(entry=n, outer_target=ti, inner_target=tj), outer, table[(n, ti)])
            if inner is not None and (inner != table[(n, tj)] or inner['frame']):
                bad = True
                _report(check, matcher, mode + ' (inner)', dict(entry=n, outer_target=ti, inner_target=tj), inner, table[(n, tj)])
            check.validated(0 if bad else 1)
    nfree = {'quick': 16, 'thorough': 400}[tier]
    seeds = [seed * 100003 + i for i in range(nfree)]
    nfc = 0
    for part in _pool_map(_free_chunk, [seeds[i::32] for i in range(32) if seeds[i::32]]):
        for s, (recs, errs) in part:
            if errs:
                raise vlib.MachineryError('zoo free-running thread failed: %s' % errs[:2])
            bad = False
            for n, ti, got in recs:
                nfc += 1
                if got != table[(n, ti)] or got['frame']:
                    bad = True
                    _report(check, matcher, 'free-running threads', dict(entry=n, target=ti, session_seed=s), got, table[(n, ti)])
            check.validated(0 if bad else 1)
    check.cov['evaluations'] += nfc
    check.extra['zoo'] = dict(spec_objects=len(entries), object_target_pairs=len(table), schedules=len(jobs),
                              second_evaluation_ran_inside_the_first=ninside, free_running_sessions=nfree,
                              free_running_evaluations=nfc, not_in_zoo=NOT_IN_ZOO)
    check.sample(dict(kind='zoo-threads', entry=jobs[0][1], outer_target=jobs[0][2], inner_target=jobs[0][3]), limit=8)


def replay_case(case):
    """re-run one stored zoo case; prints what is observed, returns 1 if it still disagrees"""
    from c06 import in_child
    d, mode = case['detail'], case['mode']
    bad = 0
    if mode.startswith('sequential'):
        plan = [tuple(x) for x in d['plan']]
        recs = in_child(sequential, {n for n, _ in plan}, plan)
        for (n, ti), got in zip(plan, recs):
            want = in_child(fresh, n, ti)
            if got != want:
                bad += 1
                print('still disagrees at', (n, ti), ':', [k for k in want if got[k] != want[k]], got.get('frame'))
    elif mode.startswith(('threads', 'reentrant')):
        fn = threaded if mode.startswith('threads') else reentrant
        outer, inner = in_child(fn, d['entry'], d['outer_target'], d['inner_target'])
        for got, ti, what in ((outer, d['outer_target'], 'outer'), (inner, d['inner_target'], 'inner')):
            if got is None:
                continue
            want = in_child(fresh, d['entry'], ti)
            if got != want:
                bad += 1
                print('still disagrees (%s):' % what, [k for k in want if got[k] != want[k]], got.get('frame'))
                print('  observed:', repr(got)[:600])
                print('  fresh   :', repr(want)[:600])
    else:
        print('free-running sessions are not replayable deterministically; entry', d)
        return 1
    if not bad:
        print('the evaluations now agree with the fresh interpreter')
    return 1 if bad else 0
