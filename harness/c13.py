"""C13  Handlers are chosen by nearest registered type, immediately and in isolation.

spec -> code: TLC explores the registry machine of spec/GlomRegistry.tla from spec/MC_C13.tla (all
register() sequences up to a bound on every class family, lookups interleaved anywhere,
registries default / Glommer() / Glommer(register_default_types=False)); every dumped state
carries its history.  Each behaviour is performed on real classes through the public API
(glom.register / Glommer.register; glom(obj, Path), [T], Assign, Delete, a custom specifier for
'keys'); the handler that actually ran must be one the LAW allows (VIOLATION otherwise); the
handler / _op_type_map / _op_type_tree / _type_cache the transcribed MECHANISM predicts are
compared too where the private representation can be read (mismatch = DRIFT in the evidence only;
unreadable = counted as mechanism_unobservable; neither is a violation).
code -> spec: random class hierarchies and random longer histories are run on the real library,
recorded and validated by TLC (spec/Trace_C13.tla) with the same operators.
"""
import json
import multiprocessing as mp
import os
import random
import shutil
import tempfile
from concurrent.futures import ThreadPoolExecutor

import vlib
import c13_real as real

PROP = 'C13'
ALL_OPS = real.ALL_OPS
X_OPS = real.X_OPS
_U = None          # Universe of the specification's class table (built once, inherited by forks)
_RUN = None        # parameters of the TLC run being replayed (ops)


# ---- the specification's class universe ---------------------------------------------------
def base_constants(order):
    pos = {'object': 'PosObject', 'dict': 'PosDict', 'list': 'PosList', 'tuple': 'PosTuple',
           'OrderedDict': 'PosOD', '_AbstractIterable': 'PosAI', '_ObjStyleKeys': 'PosOSK'}
    c = {pos[t]: i + 1 for i, t in enumerate(order)}
    return c


def tla_set(xs):
    return '{' + ', '.join(xs) + '}'


def strs(xs):
    return tla_set('"%s"' % x for x in xs)


def setsets(xss):
    return tla_set(strs(xs) for xs in xss)


def load_universe(order):
    global _U
    consts = dict(base_constants(order), PrintUniverse='TRUE', OffChoices='{{}}', Stars='FALSE', XOps='{}', MaxReg=0, MaxLook=0, FamNames=strs(['chain']),
                  RegSets=setsets([['g2']]), Ops=strs(['get']), KwChoices=setsets([['get']]), LookOps=strs(['get']))
    res = vlib.run_tlc('MC_C13', constants=consts, workers=1)
    vlib.tlc_must_pass(res, 'MC_C13 universe')
    docs = [j for j in res['json'] if isinstance(j, dict) and 'classes' in j]
    if not docs:
        raise vlib.MachineryError('MC_C13 did not print its class universe')
    doc = docs[0]
    classes = {n: dict(c) for n, c in doc['classes'].items()}
    for n in doc['abstract']:
        classes[n]['abstract'] = True
    for n, vs in doc['virt'].items():
        classes[n]['virt'] = list(vs)
    for n in doc['quack']:
        classes[n]['quack'] = True
    for n, sp in doc['special'].items():
        classes[n]['special'] = sp
    _U = real.Universe(classes)
    _U.verify(doc)
    return doc


# ---- spec -> code ---------------------------------------------------------------------------
# branches of the machine every tier must have exercised on the real library (vacuity guard)
BRANCHES = ['glommer_created', 'exact_registration', 'fuzzy_registration', 'memo_hit', 'memo_miss', 'unregistered',
            'user_handler', 'builtin_handler', 'several_nearest_types', 'wildcard_step', 'register_op',
            'registration_from_inside_a_handler', 'falsy_handler_object']

def replay_state(st, ops, out):
    """perform the behaviour of one dumped state on the real library"""
    u = _U
    env = real.Env(u)
    hist = st['hist']
    regs = st['regs']
    created = {a['r'] for a in hist if a['a'] == 'new'}
    for r in regs:
        if r != 'default' and r not in created and regs[r]['live']:
            env.new(r)
    nlook = nreg = 0
    br = out['branches']
    memo = set()
    inside = set()        # registrations already made from inside the handler of the preceding lookup
    for idx, a in enumerate(hist, 1):
        if a['a'] == 'new':
            env.new(a['r'])
            br['glommer_created'] += 1
        elif a['a'] == 'regop':
            env.register_op(a['r'], a['op'])
            br['register_op'] += 1
        elif a['a'] == 'reg':
            nreg += 1
            if idx not in inside:
                env.register(a['r'], a['t'], a['ops'], a['exact'], idx, a.get('off', ()))
            if idx % 2 == 0 and len(a['ops']) > len(a.get('off', ())):
                br['falsy_handler_object'] += 1
            memo = {k for k in memo if k[0] != a['r']}
            br['exact_registration' if a['exact'] else 'fuzzy_registration'] += 1
        elif a['a'] == 'star':
            nlook += 1
            sig = env.observe_star(a['r'], a['t'])
            allowed = [u.star_sig(o, a['t']) for o in a['allowed']]
            mech = u.star_sig(a['out'], a['t'])
            out['lookups'] += 1
            br['wildcard_step'] += 1
            if sig not in allowed:
                out['bad'].append(dict(
                    why='wildcard step did not enumerate the children with handlers of a nearest registered type: observed %s, '
                        'law allows %s (instance of %s on %s, action %d)' % (list(sig), a['allowed'], a['t'], a['r'], idx),
                    case=dict(kind='replay', fam=st['fam'], ops=ops, regs=sorted(regs), hist=hist[:idx],
                              observed=list(sig), mech_agrees=(sig == mech))))
                return
            if sig != mech:
                out['drift'].append(dict(what='handler', fam=st['fam'], hist=hist[:idx], observed=list(sig)))
            memo = {k for k in memo if k[0] != a['r']}      # (its three lookups are not tracked by this counter)
        else:
            nlook += 1
            key = (a['r'], a['t'], a['op'])
            br['memo_hit' if key in memo else 'memo_miss'] += 1
            nxt = hist[idx] if idx < len(hist) else None
            if nxt and nxt['a'] == 'reg' and nxt['r'] == a['r'] and a['h']['n']:
                # the registration that follows is made by the handler of this lookup while it runs (re-entrant)
                def inner(nxt=nxt, k=idx + 1):
                    env.register(nxt['r'], nxt['t'], nxt['ops'], nxt['exact'], k, nxt.get('off', ()))
                    inside.add(k)
                    br['registration_from_inside_a_handler'] += 1
                real.ON_CALL[:] = [inner]
            if a['h']['o'] != 'False':
                memo.add(key)
            br['unregistered' if a['h']['o'] == 'False' else 'user_handler' if a['h']['n'] else 'builtin_handler'] += 1
            if len(a['allowed']) > 1:
                br['several_nearest_types'] += 1
            sig = env.observe(a['r'], a['op'], a['t'])
            del real.ON_CALL[:]
            if env.pulled:
                out['drift'].append(dict(what='a generator target was consumed by a lookup that does not iterate',
                                         fam=st['fam'], hist=hist[:idx]))
            allowed = [u.sig(h, a['op'], a['t']) for h in a['allowed']]
            mech = u.sig(a['h'], a['op'], a['t'])
            out['lookups'] += 1
            if sig not in allowed:
                out['bad'].append(dict(
                    why='handler that ran is not one of a nearest registered type: observed %s, law allows %s '
                        '(lookup %s of %s on %s, action %d)' % (list(sig), a['allowed'], a['op'], a['t'], a['r'], idx),
                    case=dict(kind='replay', fam=st['fam'], ops=ops, regs=sorted(regs), hist=hist[:idx],
                              observed=list(sig), mech_agrees=(sig == mech))))
                return
            if sig != mech:
                out['drift'].append(dict(what='handler', fam=st['fam'], hist=hist[:idx], observed=list(sig)))
    # projected registry state after the last action (every prefix is a dumped state of its own)
    for r in regs:
        if not regs[r]['live']:
            if env.live(r):
                out['drift'].append(dict(what='liveness', fam=st['fam'], hist=hist))
            continue
        proj = env.project(r, ops)      # only the parts of the private representation that can be read
        for f in ('auto', 'map', 'tree', 'cache'):
            if f in proj and proj[f] != regs[r][f]:
                out['drift'].append(dict(what=f, reg=r, fam=st['fam'], hist=hist, model=regs[r][f], real=proj[f]))
                break
    out['n'] += 1
    if nreg and nlook:
        out['nontrivial'] += 1
    if len(out['samples']) < 1 and nreg >= 2 and nlook:
        out['samples'].append(dict(fam=st['fam'], hist=hist))


def worker(args):
    text, ops = args
    out = dict(n=0, nontrivial=0, lookups=0, bad=[], drift=[], samples=[],
               branches=dict.fromkeys(BRANCHES, 0))
    real.UNOBSERVABLE.clear()
    try:
        for st in vlib._parse_chunk_text(text):
            replay_state(st, ops, out)
    finally:
        real.restore_default_registry()
    out['drift'] = out['drift'][:5] + [None] * max(0, len(out['drift']) - 5)
    out['unobservable'] = dict(real.UNOBSERVABLE)
    return out


def tlc_and_replay(check, label, consts, ops, tlc_workers, pool):
    """run TLC with -dump on MC_C13 and replay every dumped state; returns merged counters"""
    scratch = tempfile.mkdtemp(prefix='glomverif_c13_')
    try:
        path = os.path.join(scratch, 'states')
        res = vlib.run_tlc('MC_C13', constants=consts, workers=tlc_workers, extra=('-dump', path), heap='3g')
        vlib.tlc_must_pass(res, 'MC_C13 ' + label)
        chunks = [(c, ops) for c in vlib._dump_chunks(path + '.dump', chunk_bytes=1 << 20)]
        results = pool.map(worker, chunks)
        return res, results
    finally:
        shutil.rmtree(scratch, ignore_errors=True)


def runs_for(tier):
    """the TLC runs of a tier: (label, constants, ops)"""
    fams = ['chain', 'diamond', 'mixin', 'builtins', 'slots', 'ducks', 'objroot']
    each = [['default'], ['g1'], ['g2']]
    q = tier == 'quick'

    def c(**kw):
        d = dict(Mutant='""', Dynamic='FALSE', MaxNew=0, ReReg='FALSE', AllOrders='FALSE', PrintUniverse='FALSE', OffChoices='{{}}', Stars='FALSE', XOps='{}')
        d.update(kw)
        return d
    runs = [
        ('order get/keys', c(Ops=strs(['get', 'keys']), FamNames=strs(fams if not q else ['chain', 'mixin', 'builtins', 'ducks', 'slots']),
                             RegSets=setsets(each), MaxReg=2 if q else 3, MaxLook=1, KwChoices=setsets([['get', 'keys']]),
                             LookOps=strs(['get', 'keys'])), ['get', 'keys']),
        ('order iterate/assign/delete', c(Ops=strs(['iterate', 'assign', 'delete']),
                                          FamNames=strs(['ducks', 'builtins'] + ([] if q else ['slots', 'chain'])),
                                          RegSets=setsets([['default'], ['g1']] + ([] if q else [['g2']])),
                                          MaxReg=2, MaxLook=1,
                                          KwChoices=setsets([['iterate', 'assign', 'delete']] + ([] if q else [['assign']])),
                                          LookOps=strs(['iterate', 'assign', 'delete'])), ['iterate', 'assign', 'delete']),
        ('mixin order depth 4', c(Ops=strs(['get']), FamNames=strs(['mixin'] if q else ['mixin', 'diamond']),
                                  RegSets=setsets([['g2']] if q else [['g2'], ['default']]),
                                  MaxReg=4, MaxLook=1, KwChoices=setsets([['get']]), LookOps=strs(['get'])), ['get']),
        # Glommers created before / after registrations on the other registries; 'assign' stands for the operations a
        # Glommer takes over from the default registry at construction
        ('isolation', c(Ops=strs(['get', 'assign']), FamNames=strs(['chain']),
                        RegSets=setsets([['default', 'g1', 'g2']]), Dynamic='TRUE', MaxNew=2, MaxReg=1 if q else 2,
                        MaxLook=1, KwChoices=setsets([['get', 'assign']]), LookOps=strs(['get', 'assign'] if q else ['assign'])), ['get', 'assign']),
    ]
    # a type's own entry: lookup, then an exact registration of the same type that names only ANOTHER op (the looked-up
    # op is filled in by autodiscovery), then the same lookup again; handlers passed as False
    runs += [
        ('own entry: memo vs partial exact registration, False handlers',
         c(Ops=strs(['get', 'iterate']), FamNames=strs(['own']), RegSets=setsets([['default'], ['g1']]), MaxReg=1, MaxLook=2,
           KwChoices=setsets([['iterate']]), OffChoices='{{}, {"iterate"}}', LookOps=strs(['get', 'iterate'])), ['get', 'iterate']),
        ('own entry: autodiscovered False below a registered ancestor',
         c(Ops=strs(['get', 'iterate']), FamNames=strs(['ownchain']), RegSets=setsets([['default'], ['g2']] if q else each),
           MaxReg=2, MaxLook=1, KwChoices=setsets([['iterate'], ['get']]), OffChoices='{{}}' if q else '{{}, {"iterate"}}',
           LookOps=strs(['iterate'] if q else ['get', 'iterate'])), ['get', 'iterate']),
    ]
    # ABCs with virtual subclasses (abc.register; a class that is a virtual subclass of two registered ABCs), a duck type
    # whose metaclass overrides __instancecheck__; register_op with / without an autodiscovery function on a bare Glommer
    runs += [('virtual subclasses and duck types', c(Ops=strs(['get']), FamNames=strs(['abcs', 'quack']), RegSets=setsets(each),
                                                     MaxReg=2 if q else 3, MaxLook=1, KwChoices=setsets([['get']]), LookOps=strs(['get'])),
              ['get']),
             ('register_op', c(Ops=strs(['get', 'cauto', 'cplain']), FamNames=strs(['chain']), RegSets=setsets([['g2']]),
                               XOps=strs(['cauto', 'cplain']), MaxReg=1 if q else 2, MaxLook=1, KwChoices=setsets([['get'], ['get', 'cauto']]),
                               LookOps=strs(['get', 'cauto', 'cplain'])), ['get', 'cauto', 'cplain'])]
    # wildcard steps ('*' / every level of '**'): keys + get, else iterate, for the nearest registered type -- also for the
    # builtin containers themselves when they are re-registered or not registered at all (bare Glommer)
    runs += [('wildcard steps', c(Ops=strs(['get', 'keys', 'iterate']), FamNames=strs(['star']), RegSets=setsets(each), Stars='TRUE',
                                  MaxReg=1 if q else 2, MaxLook=1 if q else 2, LookOps='{}',
                                  KwChoices=setsets([['keys', 'get'], ['iterate'], ['keys']])), ['get', 'keys', 'iterate']),
             # a Glommer created after lookups on the module-level registry must not start with its memo
             ('glommer created after lookups', c(Ops=strs(['get']), FamNames=strs(['chain']), RegSets=setsets([['default', 'g1']]),
                                                 Dynamic='TRUE', MaxNew=1, MaxReg=1, MaxLook=2, KwChoices=setsets([['get']]),
                                                 LookOps=strs(['get'])), ['get'])]
    # the same type registered twice with the same handlers (second call without keywords: every handler is kept) and a
    # changed exact flag (exact -> fuzzy must start covering subclasses, fuzzy -> exact keeps covering them)
    runs += [('re-registration with unchanged handlers',
              c(Ops=strs(['get']), FamNames=strs(['ownchain'] if q else ['ownchain', 'own']), RegSets=setsets(each), ReReg='TRUE',
                MaxReg=2, MaxLook=1, KwChoices='{{"get"}, {}}', LookOps=strs(['get'])), ['get'])]
    if q:
        runs += [('lookup history', c(Ops=strs(['get', 'keys']), FamNames=strs(['chain']), RegSets=setsets([['default'], ['g2']]),
                                      MaxReg=2, MaxLook=2, KwChoices=setsets([['get', 'keys']]), LookOps=strs(['get'])), ['get', 'keys'])]
    if not q:
        runs += [
            ('order get/keys, partial keywords', c(Ops=strs(['get', 'keys']), FamNames=strs(fams), RegSets=setsets(each), MaxReg=2, MaxLook=1,
                                                   KwChoices=setsets([['get', 'keys'], ['get']]), LookOps=strs(['get', 'keys'])),
             ['get', 'keys']),
            ('re-registration', c(Ops=strs(['get', 'keys']), FamNames=strs(['chain', 'mixin', 'objroot']), RegSets=setsets(each),
                                  ReReg='TRUE', MaxReg=3, MaxLook=1, KwChoices=setsets([['get', 'keys']]),
                                  LookOps=strs(['get', 'keys'])), ['get', 'keys']),
            ('lookup history', c(Ops=strs(['get', 'keys']), FamNames=strs(['chain', 'ducks']), RegSets=setsets(each),
                                 MaxReg=2, MaxLook=2, KwChoices=setsets([['get', 'keys']]), LookOps=strs(['get', 'keys'])),
             ['get', 'keys']),
            ('every register_op order', c(Ops=strs(['assign', 'delete']), FamNames=strs(['builtins']), RegSets=setsets([['default']]),
                                          AllOrders='TRUE', MaxReg=0, MaxLook=0, KwChoices=setsets([['assign']]),
                                          LookOps=strs(['assign'])), None),
        ]
    return runs


# ---- spec mutants: TLC must report the named law violated ------------------------------------------
def mutant_runs():
    def c(**kw):
        d = dict(Dynamic='FALSE', MaxNew=0, ReReg='FALSE', AllOrders='FALSE', PrintUniverse='FALSE', OffChoices='{{}}', Stars='FALSE', XOps='{}',
                 Ops=strs(['get', 'keys']), FamNames=strs(['chain']), RegSets=setsets([['g2']]), MaxReg=2, MaxLook=2,
                 KwChoices=setsets([['get', 'keys'], ['get']]), LookOps=strs(['get', 'keys']))
        d.update(kw)
        return d
    return [
        ('no_reset', {'Coherent', 'HandedOut'}, c(Mutant='"no_reset"')),
        ('cache_by_type', {'HandedOut', 'Coherent'}, c(Mutant='"cache_by_type"')),
        ('exact_in_tree', {'Nearest', 'HandedOut'}, c(Mutant='"exact_in_tree"')),
        ('shallow_closest', {'Nearest', 'HandedOut'}, c(Mutant='"shallow_closest"')),
        ('shared_glommer', {'Isolation', 'Untouched', 'Nearest', 'HandedOut'},
         c(Mutant='"shared_glommer"', RegSets=setsets([['default', 'g1']]), MaxLook=0)),
        ('partial_reset', {'Coherent', 'HandedOut'},
         c(Mutant='"partial_reset"', Ops=strs(['get', 'iterate']), FamNames=strs(['own']), RegSets=setsets([['default']]), MaxReg=1,
           KwChoices=setsets([['iterate']]), LookOps=strs(['get', 'iterate']))),
        ('warm_start', {'Coherent', 'HandedOut', 'Untouched'},
         c(Mutant='"warm_start"', Ops=strs(['get']), RegSets=setsets([['default', 'g1']]), Dynamic='TRUE', MaxNew=1, MaxReg=1, MaxLook=2,
           KwChoices=setsets([['get']]), LookOps=strs(['get']))),
        ('star_shortcut', {'HandedOut'},
         c(Mutant='"star_shortcut"', Ops=strs(['get', 'keys', 'iterate']), FamNames=strs(['star']), Stars='TRUE', MaxReg=1, MaxLook=1,
           LookOps='{}', KwChoices=setsets([['keys', 'get'], ['iterate']]))),
        ('skip_unchanged', {'Nearest', 'HandedOut'},
         c(Mutant='"skip_unchanged"', Ops=strs(['get']), FamNames=strs(['ownchain']), RegSets=setsets([['g2']]), ReReg='TRUE', MaxReg=2,
           MaxLook=0, KwChoices='{{"get"}, {}}', LookOps=strs(['get']))),
        ('false_falls_through', {'Nearest', 'HandedOut'},
         c(Mutant='"false_falls_through"', Ops=strs(['get', 'iterate']), FamNames=strs(['own']), RegSets=setsets([['default']]), MaxReg=1,
           MaxLook=0, KwChoices=setsets([['iterate']]), OffChoices='{{}, {"iterate"}}', LookOps=strs(['iterate']))),
        # the mechanism before the repairs 8de08eb / 7341a6a
        ('first_match_dfs (_ObjStyleKeys sibling)', {'Nearest'},
         c(Mutant='"first_match_dfs"', Ops=strs(['get']), RegSets=setsets([['default']]), MaxReg=1, MaxLook=0,
           KwChoices=setsets([['get']]), LookOps=strs(['get']))),
        ('first_match_dfs (mixin order)', {'Nearest'},
         c(Mutant='"first_match_dfs"', Ops=strs(['get']), FamNames=strs(['mixin']), MaxReg=4, MaxLook=0,
           KwChoices=setsets([['get']]), LookOps=strs(['get']))),
        ('glommer_without_mutation_ops', {'FreshGlommer', 'Nearest'},
         c(Mutant='"glommer_without_mutation_ops"', Ops=strs(['get', 'assign']), FamNames=strs(['builtins']),
           RegSets=setsets([['g1']]), MaxReg=0, MaxLook=0, KwChoices=setsets([['get']]), LookOps=strs(['get']))),
    ]


# ---- code -> spec: random class families, random histories -----------------------------------
def random_universe(rng, n):
    """random class table: single / multiple inheritance, builtin roots, __slots__, __iter__, two ABCs that classes are
    registered with (virtual subclasses, possibly of both), a duck type by metaclass __instancecheck__, a namedtuple
    class, leaf classes that are rebuilt for every instance (eph: types created and destroyed between operations)"""
    classes = {'object': dict(bases=[], dict=False, iter=False, kind='obj'),
               'dict': dict(bases=['object'], dict=False, iter=True, kind='map'),
               'list': dict(bases=['object'], dict=False, iter=True, kind='seq'),
               'tuple': dict(bases=['object'], dict=False, iter=True, kind='tuple'),
               'OrderedDict': dict(bases=['dict'], dict=True, iter=False, kind='obj'),
               'generator': dict(bases=['object'], dict=False, iter=True, kind='obj', special='generator'),
               'RA0': dict(bases=['object'], dict=True, iter=False, kind='obj', special='abc', abstract=True),
               'RA1': dict(bases=['object'], dict=True, iter=False, kind='obj', special='abc', abstract=True),
               'RQ': dict(bases=['object'], dict=True, iter=False, kind='obj', special='instancecheck', abstract=True),
               'RN': dict(bases=['tuple'], dict=False, iter=False, kind='obj', special='namedtuple')}
    names = []
    while len(names) < n:
        name = 'R%d' % len(names)
        pool = names + ['object'] * 2 + ['dict', 'list', 'tuple', 'OrderedDict']
        k = 2 if names and rng.random() < 0.35 else 1
        bases = []
        for b in rng.sample(names, min(k, len(names))) if k == 2 else [rng.choice(pool)]:
            if b not in bases:
                bases.append(b)
        cand = dict(bases=bases, dict=rng.random() > 0.2, iter=rng.random() < 0.2, kind='obj')
        virt = [v for v in ('RA0', 'RA1') if rng.random() < 0.15]
        if virt:
            cand['virt'] = virt
        if rng.random() < 0.15:
            cand['quack'] = True
        trial = dict(classes)
        trial[name] = cand
        try:
            real.Universe(trial)
        except TypeError:
            continue                       # MRO / layout conflict: Python cannot build it
        classes[name] = cand
        names.append(name)
    used = {b for nme in names for b in classes[nme]['bases']}
    eph = []
    for nme in names:
        if nme not in used and rng.random() < 0.4:
            classes[nme]['eph'] = True
            eph.append(nme)
    return classes, names, eph


def new_event(env, r):
    p = env.project(r, ALL_OPS + X_OPS)
    return dict(a='new', r=r, mech='tree' in p, tree=p.get('tree', []))


def record_behaviour(u, names, eph, rng):
    """one random history on the real library -> row {regs, events}"""
    env = real.Env(u)
    regs = rng.choice([['default'], ['g1'], ['g2'], ['default', 'g1'], ['default', 'g2'], ['default', 'g1', 'g2']])
    stable = [n for n in names if n not in eph]                       # ephemeral classes are only ever looked up
    fam = rng.sample(stable, min(len(stable), rng.randint(3, 6))) + [a for a in ('RA0', 'RA1', 'RQ') if rng.random() < 0.3]
    related = [n for n in names if any(issubclass(u.real[n], u.real[f]) or isinstance(u.make(n), u.real[f]) for f in fam)]
    objs = related + ['dict', 'list', 'tuple', 'OrderedDict', 'object', 'generator', 'RN']
    events = []
    last = None
    default_types = ['object', 'dict', 'list', 'tuple', 'OrderedDict', '_AbstractIterable', '_ObjStyleKeys']
    known = {'default': list(default_types), 'g1': list(default_types), 'g2': []}     # first-registration order
    had_exact = set()
    xops = {r: [] for r in regs}

    def reg_event(r, t, ops, exact, off, n, inside=False):
        if not inside:
            env.register(r, t, ops, exact, n, off)
        if t not in known[r]:
            known[r].append(t)
        if exact:
            had_exact.add(r)
        p = env.project(r, ALL_OPS + X_OPS)
        mech = 'tree' in p and 'map' in p
        events.append(dict(a='reg', r=r, t=t, ops=ops, exact=exact, off=off, mech=mech,
                           tree=p['tree'] if mech else [], map=p['map'] if mech else []))

    def reg_plan(r):
        t = rng.choice(fam) if rng.random() < 0.93 else rng.choice(['object', 'dict', 'list'])
        if last and last[0] == r and last[1] in stable and rng.random() < 0.35:
            t = last[1]                  # the type just looked up gets its own registration
        ops = [op for op in ALL_OPS + xops[r] if rng.random() < 0.4]
        off = [op for op in ops if rng.random() < 0.12]          # op=False: "not supported"
        return t, ops, rng.random() < 0.3, off

    for r in regs:
        if r != 'default' and rng.random() < 0.5:
            env.new(r)
            events.append(new_event(env, r))
    for _ in range(rng.randint(4, 14)):
        n = len(events) + 1
        r = rng.choice(regs)
        if not env.live(r):
            env.new(r)
            events.append(new_event(env, r))
            continue
        x = rng.random()
        if x < 0.08 and r != 'default' and r not in had_exact and len(xops[r]) < 2:
            # an extension adds an operation to this Glommer's registry (with / without autodiscovery); the types known
            # to the registry are autodiscovered in name order and enter the tree in the iteration order of a set
            op = rng.choice([o for o in X_OPS if o not in xops[r]])
            env.register_op(r, op)
            xops[r].append(op)
            kt = [u.real[t] for t in known[r]]
            p = env.project(r, ALL_OPS + X_OPS)
            mech = 'tree' in p and 'map' in p
            events.append(dict(a='regop', r=r, op=op, byname=[c.__name__ for c in sorted(set(kt), key=lambda c: c.__name__)],
                               order=[c.__name__ for c in set(kt)], mech=mech,
                               tree=p['tree'] if mech else [], map=p['map'] if mech else []))
        elif x < 0.5:
            t, ops, exact, off = reg_plan(r)
            reg_event(r, t, ops, exact, off, n)
        else:
            t = rng.choice(objs)
            op = rng.choice(ALL_OPS + xops[r])
            if last and last[0] == r and (last[2] in ALL_OPS or last[2] in xops[r]) and rng.random() < 0.35:
                t, op = last[1], last[2]     # the same lookup again (memo / effect of a registration in between)
            last = (r, t, op)
            fired = []
            plan = None
            if rng.random() < 0.25:
                # if a user handler runs for this lookup, it makes a registration on the same registry while it runs
                plan = reg_plan(r)
                real.ON_CALL[:] = [lambda: (env.register(r, plan[0], plan[1], plan[2], n + 1, plan[3]), fired.append(1))]
            sig = env.observe(r, op, t)
            del real.ON_CALL[:]
            # an effect no handler of this operation can have (e.g. a handler of another operation ran)
            # is recorded as such and rejected by the specification
            cached = None if fired else env.cached(r, op, t)     # (before anything rebuilds an ephemeral class)
            obs = u.consistent_tags(sig, op, t) or [{'o': 'unexpected effect', 'n': 0}]
            events.append(dict(a='look', r=r, t=t, op=op, obs=obs, memo=cached is not None,
                               cached=cached if cached is not None else dict(real.FALSE_H)))
            if fired:
                reg_event(r, plan[0], plan[1], plan[2], plan[3], n + 1, inside=True)
    return dict(regs=regs, events=events)


def record_file(args):
    """one trace file = one random universe + many behaviours; returns rows (header first)"""
    seed, nclasses, nbeh = args
    rng = random.Random(seed)
    real.UNOBSERVABLE.clear()
    classes, names, eph = random_universe(rng, nclasses)
    u = real.Universe(classes)
    tabs = u.observed_tables()
    real.restore_default_registry()
    env = real.Env(u)
    p = env.project('default', ALL_OPS + X_OPS)
    head = dict(kind='universe', classes=classes, sub=tabs['sub'], inst=tabs['inst'], auto=tabs['auto'], mro=tabs['mro'],
                known_order=real.known_order(), mech='tree' in p, init=p.get('tree', []), events=[], regs=['default'])
    rows = [head]
    try:
        for _ in range(nbeh):
            rows.append(record_behaviour(u, names, eph, rng))
    finally:
        real.restore_default_registry()
    head['unobservable'] = dict(real.UNOBSERVABLE)
    return rows


def validate_file(rows):
    """TLC (Trace_C13) steps the machine through the recorded events of one file"""
    scratch = tempfile.mkdtemp(prefix='glomverif_c13rows_')
    try:
        path = os.path.join(scratch, 'rows.ndjson')
        vlib.write_ndjson(path, rows)
        res = vlib.run_tlc('Trace_C13', workers=1, env={'TRACE_FILE': path}, heap='2g')
        vlib.tlc_must_pass(res, 'Trace_C13')
        done = [j for j in res['json'] if 'done' in j]
        if not done or done[-1]['done'] != len(rows):
            raise vlib.MachineryError('Trace_C13 consumed %s of %d rows' % (done, len(rows)))
        rejects, drifts, seen = [], [], set()
        for j in res['json']:
            key = json.dumps(j, sort_keys=True)
            if key in seen:
                continue
            seen.add(key)
            if 'reject' in j:
                rejects.append(j)
            elif 'drift' in j:
                drifts.append(j)
        return res, rejects, drifts
    finally:
        shutil.rmtree(scratch, ignore_errors=True)


def record(check, nfiles, nclasses, nbeh, seed, pool, corrupt=False):
    files = pool.map(record_file, [(seed * 1000 + k, nclasses, nbeh) for k in range(nfiles)])
    for rows in files:
        note_unobservable(check, rows[0].pop('unobservable', {}))
    if corrupt:
        return files
    with ThreadPoolExecutor(max_workers=min(8, nfiles)) as ex:
        outs = list(ex.map(validate_file, files))
    nrows = 0
    for rows, (res, rejects, drifts) in zip(files, outs):
        check.add_tlc(res, None)
        bad_rows = set()
        for rej in rejects:
            if rej['reject'] in bad_rows:
                continue
            bad_rows.add(rej['reject'])
            row = rows[rej['reject'] - 1]
            ev = row['events'][rej['event'] - 1]
            tally(check, dict(kind='recorded'))
            check.violation(dict(kind='recorded', classes=rows[0]['classes'], regs=row['regs'],
                                 events=row['events'][:rej['event']], clause=rej['clause'], event=ev),
                            'recorded execution rejected by the specification: clause %s at event %d (%s of %s on %s observed %s)'
                            % (rej['clause'], rej['event'], ev.get('op'), ev.get('t'), ev.get('r'), ev.get('obs')))
        for d in drifts:
            note_drift(check, dict(what='trace ' + d['clause'], row=rows[d['drift'] - 1]['events'][:d['event']]))
        check.validated(len(rows) - 1 - len(bad_rows))
        nrows += len(rows) - 1
        check.cov['evaluations'] += sum(len(r['events']) for r in rows[1:])
        check.cov['distinct_nontrivial'] += len({json.dumps(r, sort_keys=True) for r in rows[1:]
                                                 if any(e['a'] == 'reg' for e in r['events']) and
                                                 any(e['a'] == 'look' for e in r['events'])})
    for rows in files[:1]:
        check.sample(dict(kind='recorded', classes={k: v['bases'] for k, v in rows[0]['classes'].items() if k.startswith('R')},
                          behaviour=[{k: v for k, v in e.items() if k not in ('tree', 'map')} for e in rows[1]['events']]),
                     limit=6)
    return nrows


def tally(check, case):
    """deviations from the law seen on the real library, by direction / agreement with the mechanism"""
    k = '%s mechanism_agrees=%s' % (case['kind'], case.get('mech_agrees', '-'))
    d = check.extra.setdefault('law_deviations_on_real_code', {})
    d[k] = d.get(k, 0) + 1


def selftest_corrupted_row(seed):
    """machinery self-test: one observed handler of a recorded behaviour is replaced by a handler nobody
    registered; Trace_C13 must reject exactly that event (law clause)"""
    rows = record_file((seed * 1000 + 999, 8, 30))
    rows[0].pop('unobservable', None)
    for ri, row in enumerate(rows[1:], 2):
        for ei, e in enumerate(row['events'], 1):
            if e['a'] == 'look':
                e['obs'] = [{'o': 'object', 'n': 77}]
                res, rejects, drifts = validate_file(rows)
                hit = [r for r in rejects if r['reject'] == ri and r['event'] == ei and r['clause'] == 'nearest']
                if not hit:
                    raise vlib.MachineryError('corrupted row %d event %d was not rejected: %s' % (ri, ei, rejects[:3]))
                return dict(row=ri, event=ei, reject=hit[0])
    raise vlib.MachineryError('no lookup event to corrupt')


def note_unobservable(check, counts):
    """parts of the registry's private representation that could not be read (mechanism comparison skipped there;
    the law-level verdicts do not depend on them)"""
    d = check.extra.setdefault('mechanism_unobservable', {})
    for k, v in counts.items():
        d[k] = d.get(k, 0) + v


def note_drift(check, d):
    lst = check.extra.setdefault('drift', [])
    check.extra['drift_count'] = check.extra.get('drift_count', 0) + 1
    if len(lst) < 5 and d is not None:
        lst.append(d)


# ---- driver ----------------------------------------------------------------------------------
def main(tier, seed):
    check = vlib.Check(PROP, tier, seed)
    order = real.known_order()
    kconst = base_constants(order)
    load_universe(order)
    ctx = mp.get_context('fork')
    pool = ctx.Pool(vlib.NCPU)
    try:
        runs = runs_for(tier)
        jobs = []
        with ThreadPoolExecutor(max_workers=len(runs) + 8) as ex:
            per = max(2, vlib.NCPU // max(1, len(runs)))
            for label, consts, ops in runs:
                consts = dict(kconst, **consts)
                if ops is None:
                    jobs.append((label, ops, ex.submit(vlib.run_tlc, 'MC_C13', None, vlib.NCPU // 2, None, 3600, (), None,
                                                       False, '3g', consts)))
                else:
                    jobs.append((label, ops, ex.submit(tlc_and_replay, check, label, consts, ops, per, pool)))
            muts = []
            if tier == 'thorough':
                muts = [(lab, invs, ex.submit(vlib.run_tlc, 'MC_C13', None, 2, None, 3600, (), None, False, '2g',
                                              dict(kconst, **consts))) for lab, invs, consts in mutant_runs()]
            branches = {}
            for label, ops, fut in jobs:
                if ops is None:
                    res = vlib.tlc_must_pass(fut.result(), 'MC_C13 ' + label)
                    check.add_tlc(res, 'MC_C13 ' + label)
                    continue
                res, results = fut.result()
                check.add_tlc(res, 'MC_C13 ' + label)
                for r in results:
                    check.cov['evaluations'] += r['n'] + len(r['bad'])
                    check.cov['distinct_nontrivial'] += r['nontrivial']
                    check.validated(r['n'])
                    check.extra['lookups_observed'] = check.extra.get('lookups_observed', 0) + r['lookups']
                    note_unobservable(check, r.get('unobservable', {}))
                    for k, v in r['branches'].items():
                        branches[k] = branches.get(k, 0) + v
                    for s in r['samples']:
                        check.sample(dict(kind='replayed', run=label, **s))
                    for b in r['bad']:
                        tally(check, b['case'])
                        check.violation(b['case'], b['why'])
                    for d in r['drift']:
                        note_drift(check, d)
            check.extra['branches_exercised_on_real_code'] = branches
            missing = [b for b in BRANCHES if not branches.get(b)]
            if missing:
                raise vlib.MachineryError('vacuity: branches never exercised by the replayed behaviours: %s' % missing)
            killed = {}
            for lab, invs, fut in muts:
                res = fut.result()
                if res['violated'] not in invs:
                    raise vlib.MachineryError('spec mutant %s not detected (violated=%r)\n%s'
                                              % (lab, res['violated'], '\n'.join(res['out'][-15:])))
                killed[lab] = res['violated']
            if muts:
                check.extra['spec_mutants_detected'] = killed
                check.extra['corrupted_row_rejected'] = selftest_corrupted_row(seed)
        nf, nc, nb = {'quick': (8, 14, 150), 'thorough': (32, 18, 300)}[tier]
        check.extra['recorded_behaviours'] = record(check, nf, nc, nb, seed, pool)
    finally:
        pool.terminate()
        real.restore_default_registry()
    note_unobservable(check, real.UNOBSERVABLE)
    check.extra['known_order'] = order
    check.assumptions += [
        'classes are ordinary Python classes (no metaclass tricks, no __iter__ = None, no registration of the two duck types by the user)',
        'handlers registered by the behaviours are callables; register_op is exercised only by the construction of the default registry',
        'a type registered both with and without exact=True counts as registered without (the statement is silent; the code agrees)',
        "'keys' is observed through a custom specifier calling scope[TargetRegistry].get_handler('keys', target) (documented extension route)",
        'builtin handlers are identified by their effect on a crafted target; two builtin handlers with the same effect on that target are not told apart',
        'TLC, the Json community module and the harness projection are trusted; -coverage is not usable on this module (cost model blow-up), '
        'vacuity is covered by the spec mutants and the branch counters in this file']
    return check.finish(rule='TLC enumerates every behaviour (register sequences x interleaved lookups x Glommer creation) within the '
                             'constants of each run; every dumped state is replayed from scratch on the real library; recorded rows are '
                             'random histories on random class hierarchies; non-trivial = at least one registration and one lookup; '
                             'distinct by TLC state (history is part of the state) / by row content',
                        exhaustive=True)


def replay(path):
    """re-run the single behaviour stored in a replay file on the real library and print what is observed;
    exit status 1 if the handler that runs at the last lookup is still not one the law allows"""
    with open(path) as f:
        v = json.load(f)
    case = v['case']
    print('why:', v['why'])
    if case.get('kind') == 'replay':
        load_universe(real.known_order())
        u, hist = _U, case['hist']
    else:
        u, hist = real.Universe(case['classes']), case['events']
    env = real.Env(u)
    created = {a['r'] for a in hist if a['a'] == 'new'}
    for r in case['regs']:
        if r != 'default' and r not in created:
            env.new(r)
    sig = None
    for idx, a in enumerate(hist, 1):
        if a['a'] == 'new':
            env.new(a['r'])
            print('%2d %s = Glommer(%s)' % (idx, a['r'], '' if a['r'] == 'g1' else 'register_default_types=False'))
        elif a['a'] == 'reg':
            env.register(a['r'], a['t'], a['ops'], a['exact'], idx, a.get('off', ()))
            print('%2d register(%s, %s%s) on %s' % (idx, a['t'], ', '.join(('%s=False' % o) if o in a.get('off', ()) else '%s=h%d' % (o, idx) for o in a['ops']),
                                                      ', exact=True' if a['exact'] else '', a['r']))
        elif a['a'] == 'star':
            sig = env.observe_star(a['r'], a['t'])
            print("%2d '*' on an instance of %s via %s -> %s" % (idx, a['t'], a['r'], list(sig)))
        else:
            sig = env.observe(a['r'], a['op'], a['t'])
            print('%2d %s on an instance of %s via %s -> %s' % (idx, a['op'], a['t'], a['r'], list(sig)))
    real.restore_default_registry()
    last = hist[-1]
    if case.get('kind') == 'replay':
        print('law allows handlers:', last['allowed'])
        still = (sig not in [u.star_sig(o, last['t']) for o in last['allowed']] if last['a'] == 'star' else
                 sig not in [u.sig(h, last['op'], last['t']) for h in last['allowed']])
    else:
        now = u.consistent_tags(sig, last['op'], last['t'])
        print('handlers consistent with the observation now:', now, ' recorded:', last['obs'],
              ' (the recorded observation was rejected by Trace_C13)')
        still = any(o in last['obs'] for o in now)
    print('still disagrees' if still else 'no longer disagrees')
    return 1 if still else 0
