"""Shared machinery for the glom TLA+ verification framework.

* run_tlc(): run TLC on a module/cfg pair from /verif/spec, collect PrintT lines,
  state counts and coverage.
* Check: per-property bookkeeping (violations, known findings, evidence file).

Python 3.12 (/venv/bin/python); the real library is imported from /repo's working
tree (PYTHONPATH is forced by bin/check).
"""
import hashlib
import json
import os
import re
import shutil
import subprocess
import sys
import tempfile
import time

VERIF = os.path.dirname(os.path.dirname(os.path.abspath(__file__)))
SPEC_DIR = os.path.join(VERIF, 'spec')
# overridable so that runs against scratch copies (seeded changes) do not touch the committed evidence
EVID_DIR = os.environ.get('VERIF_EVIDENCE_DIR') or os.path.join(VERIF, 'evidence')
REPLAY_DIR = os.environ.get('VERIF_REPLAY_DIR') or os.path.join(VERIF, 'replays')
FINDINGS = os.path.join(VERIF, 'known_findings.json')
TLA_CP = '/opt/veriftools/tla/tla2tools.jar:/opt/veriftools/tla/CommunityModules-deps.jar'
NCPU = os.cpu_count() or 4


class MachineryError(Exception):
    """The verification machinery itself failed (exit status 2)."""


_STATE_RE = re.compile(r'(\d+) states generated, (\d+) distinct states found')
_DEPTH_RE = re.compile(r'depth of the complete state graph search is (\d+)')


def run_tlc(module, cfg=None, workers=None, env=None, timeout=3600, extra=(), simulate=None,
            deque=False, heap='4g', constants=None, coverage=False):
    """Run TLC on spec/<module>.tla with spec/<cfg>.cfg.

    constants: optional dict name -> literal text; a temporary cfg is derived from
    cfg with those CONSTANT lines appended (literal values, never indirection).
    Returns dict(ok, states, distinct, depth, out (list of output lines), json (decoded
    PrintT(ToJson(..)) lines), violated (name of violated invariant/property or None),
    wall_s, coverage (dict action -> count) ).
    """
    cfg = cfg or module
    scratch = tempfile.mkdtemp(prefix='glomverif_tlc_')
    try:
        cfg_path = os.path.join(SPEC_DIR, cfg + '.cfg')
        if constants:
            with open(cfg_path) as f:
                text = f.read()
            text += '\nCONSTANTS\n' + ''.join('  %s = %s\n' % kv for kv in constants.items())
            cfg_path = os.path.join(scratch, cfg + '.cfg')
            with open(cfg_path, 'w') as f:
                f.write(text)
        cmd = ['java', '-XX:+UseParallelGC', '-Xmx' + heap, '-Xss64m']
        if deque:
            cmd.append('-Dtlc2.tool.queue.IStateQueue=StateDeque')
        cmd += ['-cp', TLA_CP, 'tlc2.TLC', '-metadir', os.path.join(scratch, 'meta'),
                '-noGenerateSpecTE', '-config', cfg_path,
                '-workers', str(workers or NCPU)]
        if coverage:
            cmd += ['-coverage', '1']
        if simulate:
            cmd += ['-simulate', simulate]
        cmd += list(extra)
        cmd.append(os.path.join(SPEC_DIR, module + '.tla'))
        e = dict(os.environ)
        e.pop('JAVA_TOOL_OPTIONS', None)
        if env:
            e.update({k: str(v) for k, v in env.items()})
        t0 = time.time()
        try:
            p = subprocess.run(cmd, cwd=SPEC_DIR, env=e, capture_output=True, text=True,
                               timeout=timeout)
        except subprocess.TimeoutExpired:
            raise MachineryError('TLC timed out after %ss on %s' % (timeout, module))
        wall = time.time() - t0
        out = p.stdout.splitlines()
        res = dict(ok=False, states=0, distinct=0, depth=0, out=out, json=[], violated=None,
                   wall_s=wall, coverage={}, rc=p.returncode, stderr=p.stderr)
        for line in out:
            if line.startswith('"') and line.endswith('"'):
                try:
                    res['json'].append(json.loads(json.loads(line)))
                    continue
                except ValueError:
                    pass
            m = _STATE_RE.search(line)
            if m:
                res['states'], res['distinct'] = int(m.group(1)), int(m.group(2))
            m = _DEPTH_RE.search(line)
            if m:
                res['depth'] = int(m.group(1))
            m = re.match(r'Error: Invariant (\S+) is violated', line)
            if m:
                res['violated'] = m.group(1)
            m = re.match(r'Error: Action property (\S+)', line)
            if m:
                res['violated'] = m.group(1)
            if 'Temporal properties were violated' in line:
                res['violated'] = res['violated'] or 'temporal'
            m = re.match(r'<(\w+) line \d+, col \d+ to line \d+, col \d+ of module (\w+)>: (\d+):(\d+)', line)
            if m:
                res['coverage'][m.group(1)] = res['coverage'].get(m.group(1), 0) + int(m.group(4))
        res['ok'] = (p.returncode == 0 and
                     any('Model checking completed. No error has been found' in l or
                         'Finished in' in l for l in out) and res['violated'] is None and
                     not any(l.startswith('Error:') for l in out))
        return res
    finally:
        shutil.rmtree(scratch, ignore_errors=True)


def tlc_must_pass(res, what):
    if not res['ok']:
        tail = '\n'.join(res['out'][-40:])
        raise MachineryError('TLC failed on %s (rc=%s, violated=%s):\n%s\n%s'
                             % (what, res['rc'], res['violated'], tail, res['stderr'][-2000:]))
    return res


def sany(module):
    cmd = ['java', '-cp', TLA_CP, 'tla2sany.SANY', os.path.join(SPEC_DIR, module + '.tla')]
    p = subprocess.run(cmd, cwd=SPEC_DIR, capture_output=True, text=True, timeout=300)
    ok = p.returncode == 0 and 'Semantic errors' not in p.stdout and 'Parse Error' not in p.stdout \
        and '*** Errors' not in p.stdout and 'Fatal errors' not in p.stdout
    return ok, p.stdout


def load_findings():
    try:
        with open(FINDINGS) as f:
            return json.load(f)
    except FileNotFoundError:
        return {'findings': [], 'fixed': []}


class Check:
    """Bookkeeping for one property check run."""

    def __init__(self, prop, tier, seed):
        self.prop, self.tier, self.seed = prop, tier, seed
        self.t0 = time.time()
        self.violations = []      # (key, case)
        self.known_hits = {}      # finding id -> count
        self.cov = dict(states=0, transitions=0, traces_validated_against_impl=0, samples=[],
                        evaluations=0, distinct_nontrivial=0)
        self.extra = {}
        self.assumptions = []
        self.findings = [f for f in load_findings().get('findings', []) if f['property'] == prop]
        self._seen = set()
        self._nontrivial = set()

    # -- coverage ------------------------------------------------------------------
    def add_tlc(self, res, label=None):
        self.cov['states'] += res['distinct']
        self.cov['transitions'] += res['states']
        if label:
            self.extra.setdefault('tlc_runs', []).append(
                dict(model=label, states_generated=res['states'], distinct=res['distinct'],
                     depth=res['depth'], wall_s=round(res['wall_s'], 2),
                     coverage=res.get('coverage') or None))

    def count(self, key, nontrivial):
        """Count one evaluated case; key identifies it (any hashable / json-able)."""
        self.cov['evaluations'] += 1
        h = hashlib.blake2b(json.dumps(key, sort_keys=True, default=str).encode(), digest_size=8).digest()
        if nontrivial and h not in self._nontrivial:
            self._nontrivial.add(h)
            self.cov['distinct_nontrivial'] += 1

    def sample(self, case, limit=4):
        if len(self.cov['samples']) < limit:
            self.cov['samples'].append(case)

    def validated(self, n=1):
        self.cov['traces_validated_against_impl'] += n

    # -- verdicts ------------------------------------------------------------------
    def violation(self, case, why, matcher=None):
        """Report a disagreement.  `matcher(finding, case)` decides whether a known finding
        covers it; findings carry 'match' data interpreted by the property module."""
        for f in self.findings:
            if matcher is not None and matcher(f, case):
                self.known_hits[f['id']] = self.known_hits.get(f['id'], 0) + 1
                return False
        self.violations.append(dict(why=why, case=case))
        return True

    def finish(self, level='model_checking', rule='', exhaustive=None):
        os.makedirs(EVID_DIR, exist_ok=True)
        wall = time.time() - self.t0
        for f in self.findings:
            n = self.known_hits.get(f['id'], 0)
            if n:
                print('KNOWN-FINDING: property=%s %s [%s, %d case(s) this run]'
                      % (self.prop, f['what'], f['id'], n))
        replay_paths = []
        if self.violations:
            d = os.path.join(REPLAY_DIR, self.prop)
            os.makedirs(d, exist_ok=True)
            for v in self.violations[:5]:
                blob = json.dumps(v, sort_keys=True, default=str, indent=1)
                name = hashlib.sha1(blob.encode()).hexdigest()[:12] + '.json'
                path = os.path.join(d, name)
                with open(path, 'w') as f:
                    f.write(blob)
                replay_paths.append(path)
                print('VIOLATION property=%s replay=%s' % (self.prop, path))
                print('  why: %s' % (str(v['why'])[:400],))
            if len(self.violations) > 5:
                print('  ... and %d more violating cases (see evidence)' % (len(self.violations) - 5))
        cov = dict(self.cov)
        cov['rule'] = rule
        if exhaustive is not None:
            cov['exhaustive'] = exhaustive
        cov.update(self.extra)
        cov['known_findings_hit'] = self.known_hits
        ev = dict(property_id=self.prop, tier=self.tier, seed=self.seed, level=level,
                  coverage=cov, assumptions=self.assumptions, wall_s=round(wall, 2),
                  violations=len(self.violations))
        with open(os.path.join(EVID_DIR, self.prop + '.json'), 'w') as f:
            json.dump(ev, f, indent=1, sort_keys=True, default=str)
            f.write('\n')
        print('%s tier=%s seed=%s: states=%d evaluations=%d validated=%d violations=%d wall=%.1fs'
              % (self.prop, self.tier, self.seed, cov['states'], cov['evaluations'],
                 cov['traces_validated_against_impl'], len(self.violations), wall))
        return 1 if self.violations else 0


def write_ndjson(path, rows):
    with open(path, 'w') as f:
        for r in rows:
            f.write(json.dumps(r, separators=(',', ':')) + '\n')


def validate_rows(check, module, rows, label, chunk=20000, workers_parallel=None):
    """code -> spec: write rows as ndjson, let TLC (module Trace_*.tla) recompute the
    specification's verdict for every row.  The trace module prints one JSON line per
    rejected row: {"reject": <row index>, "clause": <name>, ...}, and {"done": n} at
    the end.  Returns list of (row, reject-record)."""
    rejects = []
    scratch = tempfile.mkdtemp(prefix='glomverif_rows_')
    try:
        chunks = [rows[i:i + chunk] for i in range(0, len(rows), chunk)]
        procs = []
        from concurrent.futures import ThreadPoolExecutor

        def one(ci):
            path = os.path.join(scratch, 'rows_%d.ndjson' % ci)
            write_ndjson(path, chunks[ci])
            res = run_tlc(module, workers=1, env={'TRACE_FILE': path}, timeout=3600)
            return ci, res
        with ThreadPoolExecutor(max_workers=workers_parallel or min(8, max(1, len(chunks)))) as ex:
            for ci, res in ex.map(one, range(len(chunks))):
                tlc_must_pass(res, '%s chunk %d' % (module, ci))
                done = [j for j in res['json'] if 'done' in j]
                if not done or done[-1]['done'] != len(chunks[ci]):
                    raise MachineryError('%s consumed %s of %d rows' % (module, done, len(chunks[ci])))
                check.add_tlc(res, '%s[%s#%d]' % (module, label, ci))
                seen = set()
                for j in res['json']:
                    if 'reject' in j and j['reject'] not in seen:
                        seen.add(j['reject'])
                        rejects.append((chunks[ci][j['reject'] - 1], j))
                check.validated(len(chunks[ci]) - len(seen))
    finally:
        shutil.rmtree(scratch, ignore_errors=True)
    return rejects


# ---- TLC state dumps ---------------------------------------------------------------
_TOK = re.compile(r'"(?:[^"\\]|\\.)*"|<<|>>|\[|\]|([A-Za-z_][A-Za-z_0-9]*)\s*\|->|\bTRUE\b|\bFALSE\b')
_MAP = {'<<': '[', '>>': ']', '[': '{', ']': '}', 'TRUE': 'true', 'FALSE': 'false'}


def _tok_sub(m):
    t = m.group(0)
    if t[0] == '"':
        return t
    if m.group(1):
        return '"%s":' % m.group(1)
    return _MAP[t]


def _tla_to_py(text):
    """Translate TLA+ value syntax (records, sequences, strings, ints, booleans, sets of
    scalars) as printed by TLC into JSON text."""
    return _TOK.sub(_tok_sub, text)


def parse_dump(path, chunk_states=4000):
    """Parse a `tlc -dump` file into a list of dicts {var: python value}."""
    with open(path) as f:
        text = f.read()
    blocks = re.split(r'^State \d+:\n', text, flags=re.M)[1:]
    states = []
    for k in range(0, len(blocks), chunk_states):
        parts = []
        for b in blocks[k:k + chunk_states]:
            # each variable: "/\ name = value" possibly spanning lines
            vs = re.split(r'^/\\ ([A-Za-z_][A-Za-z_0-9]*) = ', b, flags=re.M)[1:]
            items = ['"%s":%s' % (vs[j], vs[j + 1]) for j in range(0, len(vs), 2)]
            parts.append('<<<' + ','.join(items) + '>>>')
        py = _tla_to_py('\x00'.join(parts))
        py = py.replace('[<', '{').replace(']>', '}').replace('\x00', ',')
        states.extend(json.loads('[' + py + ']'))
    return states


def tlc_dump_states(module, cfg=None, constants=None, workers=None, timeout=3600, heap='6g', **kw):
    """Run TLC with -dump and return (result, states)."""
    scratch = tempfile.mkdtemp(prefix='glomverif_dump_')
    try:
        path = os.path.join(scratch, 'states')
        res = run_tlc(module, cfg=cfg, constants=constants, workers=workers, timeout=timeout,
                      heap=heap, extra=('-dump', path), **kw)
        tlc_must_pass(res, module)
        states = parse_dump(path + '.dump')
        return res, states
    finally:
        shutil.rmtree(scratch, ignore_errors=True)


def _dump_chunks(path, chunk_bytes=3 << 20):
    """Yield pieces of a TLC dump file, each a whole number of 'State n:' blocks."""
    with open(path) as f:
        buf = ''
        while True:
            data = f.read(chunk_bytes)
            if not data:
                break
            buf += data
            cut = buf.rfind('\nState ')
            if cut > 0:
                yield buf[:cut + 1]
                buf = buf[cut + 1:]
        if buf.strip():
            yield buf


def _parse_chunk_text(text):
    blocks = re.split(r'^State \d+:\n', text, flags=re.M)[1:]
    parts = []
    for b in blocks:
        vs = re.split(r'^/\\ ([A-Za-z_][A-Za-z_0-9]*) = ', b, flags=re.M)[1:]
        items = ['"%s":%s' % (vs[j], vs[j + 1]) for j in range(0, len(vs), 2)]
        parts.append('<<<' + ','.join(items) + '>>>')
    py = _tla_to_py('\x00'.join(parts))
    py = py.replace('[<', '{').replace(']>', '}').replace('\x00', ',')
    return json.loads('[' + py + ']')


_WORKER = None


def _chunk_worker(text):
    return _WORKER(_parse_chunk_text(text))


def map_states(module, worker, cfg=None, constants=None, workers=None, timeout=7200, heap='8g',
               procs=None, **kw):
    """Run TLC with -dump, then parse the dump and apply `worker(list_of_states)` to chunks of
    states in parallel (fork).  Returns (tlc result, list of worker results)."""
    global _WORKER
    import multiprocessing as mp
    scratch = tempfile.mkdtemp(prefix='glomverif_dump_')
    try:
        path = os.path.join(scratch, 'states')
        res = run_tlc(module, cfg=cfg, constants=constants, workers=workers, timeout=timeout,
                      heap=heap, extra=('-dump', path), **kw)
        tlc_must_pass(res, module)
        _WORKER = worker
        ctx = mp.get_context('fork')
        with ctx.Pool(procs or NCPU) as pool:
            results = list(pool.imap_unordered(_chunk_worker, _dump_chunks(path + '.dump')))
        return res, results
    finally:
        _WORKER = None
        shutil.rmtree(scratch, ignore_errors=True)
