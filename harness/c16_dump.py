"""Helper shared by the C15 / C16 checks: run TLC with -dump and hand the dumped states to a
worker in parallel, translating only the state variables the worker needs (the machine
modules keep an object heap in the state which the replay does not look at; skipping it
makes parsing several times faster than vlib.map_states).  Several TLC jobs can be run
concurrently (dump_many) before their dumps are mapped one after the other."""
import json
import multiprocessing as mp
import os
import re
import shutil
import tempfile
from concurrent.futures import ThreadPoolExecutor

import vlib

_KEEP = None
_WORKER = None


def _parse_chunk(text):
    blocks = re.split(r'^State \d+:\n', text, flags=re.M)[1:]
    parts = []
    for b in blocks:
        vs = re.split(r'^/\\ ([A-Za-z_][A-Za-z_0-9]*) = ', b, flags=re.M)[1:]
        items = ['"%s":%s' % (vs[j], vs[j + 1]) for j in range(0, len(vs), 2)
                 if _KEEP is None or vs[j] in _KEEP]
        parts.append('<<<' + ','.join(items) + '>>>')
    py = vlib._tla_to_py('\x00'.join(parts))
    py = py.replace('[<', '{').replace(']>', '}').replace('\x00', ',')
    return json.loads('[' + py + ']')


def _chunk_worker(text):
    return _WORKER(_parse_chunk(text))


def map_dump(path, worker, keep=None, procs=None, chunk_bytes=1 << 20):
    """apply worker(list_of_states) to chunks of a TLC dump file in forked processes"""
    global _WORKER, _KEEP
    _WORKER, _KEEP = worker, (set(keep) if keep else None)
    try:
        ctx = mp.get_context('fork')
        with ctx.Pool(procs or vlib.NCPU) as pool:
            return list(pool.imap_unordered(_chunk_worker, vlib._dump_chunks(path, chunk_bytes)))
    finally:
        _WORKER = _KEEP = None


class Jobs:
    """run several TLC jobs concurrently; jobs with dump=True leave <scratch>/<n>.dump"""

    def __init__(self):
        self.scratch = tempfile.mkdtemp(prefix='glomverif_jobs_')

    def run(self, jobs, parallel=4):
        """jobs: list of dict(module, cfg, constants, dump(bool), workers, coverage, label)
        -> list of (job, tlc result, dump path or None) in the same order"""
        def one(k):
            j = jobs[k]
            extra, path = (), None
            if j.get('dump'):
                path = os.path.join(self.scratch, 'states_%d' % k)
                extra = ('-dump', path)
                path += '.dump'
            res = vlib.run_tlc(j['module'], cfg=j.get('cfg'), constants=j.get('constants'),
                               workers=j.get('workers', 4), heap=j.get('heap', '4g'), extra=extra,
                               coverage=j.get('coverage', False), timeout=j.get('timeout', 3600))
            return j, res, path
        with ThreadPoolExecutor(max_workers=parallel) as ex:
            return list(ex.map(one, range(len(jobs))))

    def close(self):
        shutil.rmtree(self.scratch, ignore_errors=True)


def map_states(module, worker, keep=None, cfg=None, constants=None, workers=None, procs=None, **kw):
    """Like vlib.map_states; keep = names of the state variables to translate (None = all)."""
    jobs = Jobs()
    try:
        (j, res, path), = jobs.run([dict(module=module, cfg=cfg, constants=constants, dump=True,
                                         workers=workers or vlib.NCPU, **kw)])
        vlib.tlc_must_pass(res, '%s/%s' % (module, cfg or module))
        return res, map_dump(path, worker, keep, procs)
    finally:
        jobs.close()
