"""Helper shared by the C15 / C16 checks: run TLC with -dump and hand the dumped states to a
worker in parallel, translating only the state variables the worker needs (the machine
modules keep an object heap in the state which the replay does not look at; skipping it
makes parsing several times faster than vlib.map_states)."""
import json
import multiprocessing as mp
import os
import re
import shutil
import tempfile

import vlib

_KEEP = None
_WORKER = None


def _parse_chunk(text):
    blocks = re.split(r'^State \d+:\n', text, flags=re.M)[1:]
    parts = []
    for b in blocks:
        vs = re.split(r'^/\\ ([A-Za-z_][A-Za-z_0-9]*) = ', b, flags=re.M)[1:]
        items = ['"%s":%s' % (vs[j], vs[j + 1]) for j in range(0, len(vs), 2)
                 if _KEEP is None or vs[j] in _KEEP]
        parts.append('<<<' + ','.join(items) + '>>>')
    py = vlib._tla_to_py('\x00'.join(parts))
    py = py.replace('[<', '{').replace(']>', '}').replace('\x00', ',')
    return json.loads('[' + py + ']')


def _chunk_worker(text):
    return _WORKER(_parse_chunk(text))


def map_states(module, worker, keep=None, cfg=None, constants=None, workers=None, timeout=7200,
               heap='8g', procs=None, **kw):
    """Like vlib.map_states; keep = names of the state variables to translate (None = all)."""
    global _WORKER, _KEEP
    scratch = tempfile.mkdtemp(prefix='glomverif_dump_')
    try:
        path = os.path.join(scratch, 'states')
        res = vlib.run_tlc(module, cfg=cfg, constants=constants, workers=workers, timeout=timeout,
                           heap=heap, extra=('-dump', path), **kw)
        vlib.tlc_must_pass(res, '%s/%s' % (module, cfg or module))
        _WORKER, _KEEP = worker, (set(keep) if keep else None)
        ctx = mp.get_context('fork')
        with ctx.Pool(procs or vlib.NCPU) as pool:
            results = list(pool.imap_unordered(_chunk_worker, vlib._dump_chunks(path + '.dump')))
        return res, results
    finally:
        _WORKER = _KEEP = None
        shutil.rmtree(scratch, ignore_errors=True)
