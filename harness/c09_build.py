"""Shared by C09 / C10: abstract trees and pattern ASTs of spec/GlomMatch.tla <-> real Python
objects and real glom specs; observation of one glom call in the abstract domain."""
import operator
import re
from collections import OrderedDict

import glom
from glom import (And, Check, CheckError, GlomError, M, Match, MatchError, Not, Optional, Or,
                  PathAccessError, Regex, Required, Switch, T, TypeMatchError, Val)

import codec
import vlib

STR_U = ['', 'a', 'b', 'aa', 'ab', 'ba', 'bb']
REGEX_SRC = {'ra': 'a', 'rb': 'b+', 'rs': 'a*', 'rA': 'A'}
REGEX_FLAGS = {'': 0, 'I': re.IGNORECASE}
REGEX_FUNC = {'fullmatch': re.fullmatch, 'match': re.match, 'search': re.search}
# must equal RegexTab of spec/GlomMatch.tla (checked against Python's re by check_tables)
REGEX_TAB = {
    'ra': {'fullmatch': {'a'}, 'match': {'a', 'aa', 'ab'}, 'search': {'a', 'aa', 'ab', 'ba'}},
    'rb': {'fullmatch': {'b', 'bb'}, 'match': {'b', 'ba', 'bb'}, 'search': {'b', 'ab', 'ba', 'bb'}},
    'rs': {'fullmatch': {'', 'a', 'aa'}, 'match': set(STR_U), 'search': set(STR_U)},
}
TYPES = {'int': int, 'str': str, 'bool': bool, 'object': object, 'list': list, 'dict': dict,
         'tuple': tuple, 'set': set, 'frozenset': frozenset, 'NoneType': type(None),
         'OrderedDict': OrderedDict}
CMP = {'==': operator.eq, '!=': operator.ne, '<': operator.lt, '>': operator.gt,
       '<=': operator.le, '>=': operator.ge}
MAPCLS = ('dict', 'odict', 'fdict')


def check_tables():
    """The regex tables of the specification are Python's re on the string universe, and the
    string order table is Python's order (machinery self-check)."""
    for name, src in REGEX_SRC.items():
        for fn, f in REGEX_FUNC.items():
            if name == 'rA':         # RegexSet of the specification: nothing without the flag, 'a' with it
                if {s for s in STR_U if f(src, s)} or {s for s in STR_U if f(src, s, re.I)} != REGEX_TAB['ra'][fn]:
                    raise vlib.MachineryError('regex rule for rA/%s differs from python' % fn)
                continue
            if {s for s in STR_U if f(src, s, re.I)} != {s for s in STR_U if f(src, s)}:
                raise vlib.MachineryError('IGNORECASE changes %s/%s on the universe' % (name, fn))
            got = {s for s in STR_U if f(src, s)}
            if got != REGEX_TAB[name][fn]:
                raise vlib.MachineryError('regex table %s/%s: spec %s python %s' % (name, fn, REGEX_TAB[name][fn], got))
    if sorted(STR_U) != ['', 'a', 'aa', 'ab', 'b', 'ba', 'bb']:
        raise vlib.MachineryError('string rank table differs from Python order')
    with open(vlib.SPEC_DIR + '/GlomMatch.tla') as f:
        text = f.read()
    for name, tab in REGEX_TAB.items():
        for fn, strs in tab.items():
            if strs == set(STR_U):
                lit = 'StrU'
            else:
                lit = '{' + ', '.join('"%s"' % s for s in sorted(strs, key=lambda s: (len(s), s))) + '}'
            if not re.search(r'%s \|-> \[[^\]]*%s \|-> %s' % (name, fn, re.escape(lit)), text):
                raise vlib.MachineryError('GlomMatch.tla RegexTab %s/%s is not %s' % (name, fn, lit))


# ---- hardening classes: falsy / subclassed containers, hostile equality --------------------------
FalsyList = codec._falsy(list)        # instances are falsy whatever they hold
FalsyDict = codec._falsy(dict)
FalsySet = codec._falsy(set)


class NTuple(tuple):
    """a tuple subclass whose constructor takes the items as separate arguments (like a namedtuple)"""
    __slots__ = ()

    def __new__(cls, *items):
        return tuple.__new__(cls, items)

    def __getnewargs__(self):          # (copy / pickle, as namedtuples do)
        return tuple(self)

    def __repr__(self):
        return 'NTuple%s' % (tuple.__repr__(self),)


class AnyEq:
    """== to everything, != to nothing"""
    def __eq__(self, other):
        return True

    def __ne__(self, other):
        return False

    def __hash__(self):
        return 1

    def __repr__(self):
        return 'AnyEq()'


class Grumpy:
    """comparing it with anything but another Grumpy raises TypeError"""
    def __eq__(self, other):
        if type(other) is not Grumpy:
            raise TypeError('Grumpy compared with a foreign operand')
        return True

    def __ne__(self, other):
        return not self.__eq__(other)

    __hash__ = None

    def __repr__(self):
        return 'Grumpy()'


def odict_shuffled(pairs):
    """an OrderedDict whose own order is `pairs` while the raw dict order underneath is the reverse"""
    d = OrderedDict()
    for k, v in reversed(pairs):
        d[k] = v
    for k, _ in pairs:
        d.move_to_end(k)
    return d


# ---- trees <-> Python ------------------------------------------------------------------
def scalar_py(v):
    k = v['k']
    if k == 'int':
        return v['i']
    if k == 'str':
        return v['s']
    if k == 'none':
        return None
    if k == 'bool':
        return v['b']
    if k == 'any':
        return AnyEq()
    if k == 'grumpy':
        return Grumpy()
    raise ValueError('not a scalar: %r' % (v,))


def tree_py(v):
    """Plain Python object for a tree (expected results, literals, defaults)."""
    if v['k'] != 'c':
        return scalar_py(v)
    cls, items = v['cls'], v['items']
    if cls in MAPCLS:
        pairs = [(tree_py(e['key']), tree_py(e['val'])) for e in items]
        if cls == 'odict':
            return odict_shuffled(pairs)
        d = FalsyDict() if cls == 'fdict' else {}
        for k, x in pairs:
            d[k] = x
        return d
    seq = [tree_py(x) for x in items]
    if cls == 'ntuple':
        return NTuple(*seq)
    return {'list': list, 'tuple': tuple, 'set': set, 'frozenset': frozenset, 'flist': FalsyList, 'fset': FalsySet}[cls](seq)


def arg_py(v):
    """Python object for a default: like tree_py, with T expressions for [k: targ] leaves"""
    if v['k'] == 'targ':
        return tsteps(v['steps'])
    if v['k'] != 'c':
        return scalar_py(v)
    cls, items = v['cls'], v['items']
    if cls in MAPCLS:
        d = OrderedDict() if cls == 'odict' else {}
        for e in items:
            d[arg_py(e['key'])] = arg_py(e['val'])
        return d
    return {'list': list, 'tuple': tuple, 'set': set, 'frozenset': frozenset}[cls]([arg_py(x) for x in items])


def poison(res, target):
    """What a careless caller does to a result: every mutable container of it that is not an
    object of the target gets an extra element.  (A spec evaluated again must not show it.)"""
    own = set(snapshot(target)[1])
    seen = set()

    def walk(x):
        if id(x) in own or id(x) in seen or not isinstance(x, (dict, list, tuple, set, frozenset)):
            return
        seen.add(id(x))
        for y in (list(x.values()) if isinstance(x, dict) else list(x)):
            walk(y)
        if isinstance(x, dict):
            x['#'] = 1
        elif isinstance(x, list):
            x.append('#')
        elif isinstance(x, set):
            x.add('#')
    walk(res)


def has_default(p):
    return '"hasdef": true' in __import__('json').dumps(p)


def tree_cells(tree):
    """Flatten a tree into heap cells (spec/GlomData.tla encoding); returns (cells, root)."""
    cells = []

    def go(v):
        if v['k'] != 'c':
            return v
        a = len(cells) + 1
        cell = {'cls': v['cls'], 'items': None}
        cells.append(cell)
        if v['cls'] in MAPCLS:
            cell['items'] = [[go(e['key']), go(e['val'])] for e in v['items']]
        else:
            cell['items'] = [go(x) for x in v['items']]
        return {'k': 'ref', 'a': a}
    root = go(tree)
    return cells, root


def py_tree(o):
    """Abstract tree of an observed Python value (None -> opaque for anything unknown)."""
    if o is None:
        return {'k': 'none'}
    if isinstance(o, bool):
        return {'k': 'bool', 'b': o}
    if isinstance(o, int):
        if abs(o) >= 2 ** 30:
            return {'k': 'opaque', 's': 'bigint'}
        return {'k': 'int', 'i': o}
    if isinstance(o, str):
        return {'k': 'str', 's': o}
    if isinstance(o, AnyEq):
        return {'k': 'any'}
    if isinstance(o, Grumpy):
        return {'k': 'grumpy'}
    if isinstance(o, OrderedDict):
        return {'k': 'c', 'cls': 'odict', 'items': [{'key': py_tree(k), 'val': py_tree(v)} for k, v in o.items()]}
    if isinstance(o, dict):
        return {'k': 'c', 'cls': 'fdict' if isinstance(o, FalsyDict) else 'dict',
                'items': [{'key': py_tree(k), 'val': py_tree(v)} for k, v in o.items()]}
    for name, t in (('flist', FalsyList), ('ntuple', NTuple), ('list', list), ('tuple', tuple)):
        if isinstance(o, t):
            return {'k': 'c', 'cls': name, 'items': [py_tree(x) for x in o]}
    for name, t in (('fset', FalsySet), ('frozenset', frozenset), ('set', set)):
        if isinstance(o, t):
            return {'k': 'c', 'cls': name, 'items': sorted((py_tree(x) for x in o), key=repr)}
    return {'k': 'opaque', 's': type(o).__name__}


def snapshot(o):
    """Deep structure (with insertion order) and identities of every container of a target:
    equal before and after a call <=> the target was not modified."""
    ids = []

    def walk(x):
        if isinstance(x, (dict, list, tuple, set, frozenset)):
            ids.append(id(x))
            if isinstance(x, dict):
                for k, v in x.items():
                    walk(k)
                    walk(v)
            elif isinstance(x, (list, tuple)):
                for y in x:
                    walk(y)
    walk(o)
    return py_tree(o), ids


# ---- named predicates --------------------------------------------------------------------
def _yes(x):
    return True


def _no(x):
    return False


def _zero(x):
    return 0


def _truthy(x):
    return bool(x)


def _isnum(x):
    return isinstance(x, int)


def _falsy(x):
    return not x


def _recip(x):
    return 1 / x > 0


def _head(x):
    return x[0] == 'a'


def _boom_attr(x):
    raise AttributeError('boom')


def _boom(x):
    raise ValueError('boom')


PRED_FN = {'yes': _yes, 'no': _no, 'zero': _zero, 'truthy': _truthy, 'isnum': _isnum, 'falsy': _falsy, 'boom': _boom, 'recip': _recip, 'head': _head,
           'boom_attr': _boom_attr}


class Ctx:
    def __init__(self):
        self.calls = []


def mkpred(name, pid, ctx):
    fn = PRED_FN[name]

    def pred(x):
        if pid >= 0:                 # validators of Check are not part of the call-log law
            ctx.calls.append(pid)
        return fn(x)
    pred.__name__ = 'pred_%s_%s' % (name, pid)
    return pred


def tsteps(steps):
    t = T
    for s in steps:
        t = t[slice(s['lo'], None)] if s['k'] == 'slice' else t[scalar_py(s)]
    return t


def seq_of(p, items):
    """multi-valued constructor arguments as the sequence type the case asks for"""
    return tuple(items) if p.get('seq') == 'tuple' else list(items)


def _default(p):
    return {'default': arg_py(p['def'])} if p['hasdef'] else {}


def mkspec(p, ctx):
    """Real glom spec for a pattern / combinator AST."""
    op = p['op']
    if op == 'lit':
        return tree_py(p['v'])
    if op == 'type':
        return TYPES[p['t']]
    if op == 'pred':
        return mkpred(p['name'], p['id'], ctx)
    if op == 'regex':
        f = p['func']
        kw = {'flags': REGEX_FLAGS[p['flags']]} if p['flags'] else {}
        if f == 'fullmatch' and p['name'] != 'rb':      # func=None means fullmatch
            return Regex(REGEX_SRC[p['name']], **kw)
        return Regex(REGEX_SRC[p['name']], func=REGEX_FUNC[f], **kw)
    if op == 'm':
        if p['refl']:                                   # constant op M: Python reflects it onto M
            return CMP[p['cmp']](tree_py(p['rhs']), M)
        return CMP[p['cmp']](M, tree_py(p['rhs']))
    if op == 'mtruthy':
        return M
    if op == 'msub':
        return CMP[p['cmp']](M(tsteps(p['steps'])), tree_py(p['rhs']))
    if op == 'msubt':
        return M(tsteps(p['steps']))
    if op == 'tget':
        return tsteps(p['steps'])
    if op == 'val':
        return Val(tree_py(p['v']))
    if op in ('and', 'or'):
        kids = [mkspec(c, ctx) for c in p['c']]
        if p['form'] == 'op':
            f = operator.and_ if op == 'and' else operator.or_
            acc = kids[0]
            for k in kids[1:]:
                acc = f(acc, k)
            return acc           # whatever the library's operators build is what gets evaluated
        return (And if op == 'and' else Or)(*kids, **_default(p))
    if op == 'not':
        kid = mkspec(p['c'][0], ctx)
        if p['form'] == 'op':
            return ~kid          # whatever the library's operator builds is what gets evaluated
        return Not(kid)
    if op == 'switch':
        pairs = [(mkspec(k, ctx), mkspec(v, ctx)) for k, v in p['cases']]
        if p['form'] == 'dict':
            cases = dict(pairs)
            if len(cases) != len(pairs):
                raise vlib.MachineryError('duplicate key spec in dict-form Switch %r' % (p,))
            return Switch(cases, **_default(p))
        return Switch(pairs, **_default(p))
    if op == 'check':
        kw = {}
        if p['types']:
            kw['type'] = TYPES[p['types'][0]] if len(p['types']) == 1 else seq_of(p, [TYPES[t] for t in p['types']])
        if p['inst']:
            kw['instance_of'] = TYPES[p['inst'][0]] if len(p['inst']) == 1 else tuple(TYPES[t] for t in p['inst'])
        if p['vals']:
            if p['oneof']:
                kw['one_of'] = seq_of(p, [tree_py(v) for v in p['vals']])
            else:
                kw['equal_to'] = tree_py(p['vals'][0])
        if p['validate']:
            vs = [mkpred(v['name'], -1, ctx) for v in p['validate']]
            kw['validate'] = vs[0] if len(vs) == 1 and p.get('seq') != 'tuple' else seq_of(p, vs)
        kw.update(_default(p))
        if p['sub']:
            return Check(tsteps(p['sub']), **kw)        # Check(spec, ..): conditions on the sub-target
        return Check(**kw)
    if op == 'match':
        return Match(mkspec(p['sub'], ctx), **_default(p))
    if op == 'list':
        return [mkspec(a, ctx) for a in p['alts']]
    if op == 'set':
        return {mkspec(a, ctx) for a in p['alts']}
    if op == 'frozenset':
        return frozenset(mkspec(a, ctx) for a in p['alts'])
    if op == 'tuple':
        return tuple(mkspec(a, ctx) for a in p['elems'])
    if op == 'dict':
        d = {}
        for k, v in p['items']:
            key = mkspec(k, ctx)
            if key in d:
                raise vlib.MachineryError('duplicate dict-spec key in %r' % (p,))
            d[key] = mkspec(v, ctx)
        return d
    if op == 'optional':
        return Optional(tree_py(p['key']), **_default(p))
    if op == 'required':
        return Required(mkspec(p['key'], ctx))
    if op == 'wrap':                                    # construction of Optional(key) / Required(key)
        return (Optional if p['kind'] == 'optional' else Required)(mkspec(p['key'], ctx))
    raise vlib.MachineryError('unknown pattern op %r' % (op,))


def build(p, ctx, wrap=None):
    """(spec object, None) or (None, observation) when the *library* refuses to construct a spec
    the law gives a meaning to: that is an observation about the library (reported as a
    disagreement), never a machinery failure.  Errors of the harness itself stay MachineryErrors."""
    try:
        s = mkspec(p, ctx)
        return (wrap(s) if wrap else s), None
    except vlib.MachineryError:
        raise
    except Exception as e:
        return None, {'ok': False, 'cls': 'construction:' + type(e).__name__, 'is_match': False, 'is_typematch': False,
                      'is_type': isinstance(e, TypeError), 'is_glom': False, 'is_check': False, 'site': 'construction'}


# ---- observation ---------------------------------------------------------------------------
def raise_site(e):
    """Qualified name of the function that raised the exception glom() re-raises (glom() raises a
    copy; the original, with its traceback, is kept as the wrapped exception)."""
    orig = getattr(e, '_GlomError__wrapped', None) or e
    tb = orig.__traceback__
    site = ''
    while tb is not None:
        site = tb.tb_frame.f_code.co_qualname
        tb = tb.tb_next
    return site


def observe(fn):
    """Run fn(); abstract outcome: {'ok': True, 'res': <python result>} or
    {'ok': False, 'cls': <most specific known class name>, flags, 'site': raising function}."""
    try:
        res = fn()
    except Exception as e:
        return {'ok': False, 'cls': codec.exc_class_name(e), 'is_match': isinstance(e, MatchError),
                'is_typematch': isinstance(e, TypeMatchError), 'is_type': isinstance(e, TypeError),
                'is_glom': isinstance(e, GlomError), 'is_check': isinstance(e, CheckError),
                'site': raise_site(e)}
    return {'ok': True, 'res': res}


def class_ok(errs, obs):
    """Is the observed exception one the specification permits (exact class names; the
    MatchError family must also have the documented base classes)?"""
    if obs['cls'] not in errs:
        return False
    if obs['cls'] == 'TypeMatchError':
        return obs['is_match'] and obs['is_type'] and obs['is_glom']
    if obs['cls'] == 'MatchError':
        return obs['is_glom'] and not obs['is_typematch']
    if obs['cls'] in ('CheckError', 'PathAccessError', 'GlomError'):
        return obs['is_glom']
    return True


def json_safe(o):
    """observed record without Python objects (for replay files / evidence)"""
    out = dict(o)
    if 'res' in out:
        out['res'] = py_tree(out['res'])
    return out


# ---- run a function over many inputs in forked processes -------------------------------------
_PMAP_FN = None


def _pmap_one(chunk):
    try:
        return [_PMAP_FN(*args) for args in chunk]
    except Exception:
        import traceback
        return {'error': traceback.format_exc()}


def pmap(fn, arglists, procs=None, chunk=200):
    """[fn(*args) for args in arglists], in order, on forked workers (a worker exception is
    returned, not raised, so the pool cannot hang; it becomes a MachineryError here)."""
    global _PMAP_FN
    import multiprocessing as mp
    chunks = [arglists[i:i + chunk] for i in range(0, len(arglists), chunk)]
    _PMAP_FN = fn
    try:
        with mp.get_context('fork').Pool(procs or vlib.NCPU) as pool:
            parts = pool.map(_pmap_one, chunks)
    finally:
        _PMAP_FN = None
    out = []
    for part in parts:
        if isinstance(part, dict):
            raise vlib.MachineryError('worker failed:\n' + part['error'])
        out.extend(part)
    return out


# ---- documented constructor refusals (CtorTable of spec/GlomMatch.tla) ---------------------------
CTOR_CALLS = {
    'and_no_children': lambda: And(), 'or_no_children': lambda: Or(default=1), 'bool_unknown_kwarg': lambda: And(M, foo=2),
    'switch_no_cases': lambda: Switch([]), 'switch_not_list_or_dict': lambda: Switch(5),
    'switch_dict_ok': lambda: Switch({(M > 0): Val(1)}),
    'regex_bad_func': lambda: Regex('a', func=len), 'regex_func_none': lambda: Regex('a', func=None),
    'm_of_non_t': lambda: M(5), 'm_of_t': lambda: M(T['a']),
    'check_equal_to_and_one_of': lambda: Check(equal_to=1, one_of=[1]), 'check_one_of_empty': lambda: Check(one_of=[]),
    'check_type_not_a_type': lambda: Check(type=5), 'check_validate_not_callable': lambda: Check(validate=5),
    'check_instance_of_empty': lambda: Check(instance_of=()), 'check_unknown_kwarg': lambda: Check(foo=1),
    'check_no_conditions': lambda: Check(),
}


def construct(fn):
    """'ok' or the class name of the exception the constructor call raises"""
    try:
        fn()
    except Exception as e:
        return type(e).__name__
    return 'ok'


def plain_default(d):
    """defaults are plain builtin containers (OrderedDict -> dict): see PlainDefault in GlomMatch.tla"""
    if d['k'] != 'c':
        return d
    d = dict(d)
    d['cls'] = {'odict': 'dict', 'fdict': 'dict', 'flist': 'list', 'ntuple': 'tuple', 'fset': 'set'}.get(d['cls'], d['cls'])
    d['items'] = [{'key': plain_default(e['key']), 'val': plain_default(e['val'])} if d['cls'] in MAPCLS else plain_default(e)
                  for e in d['items']]
    return d


def normalize(p):
    """fill in the fields later versions of the AST added (generators may omit them)"""
    p = dict(p)
    op = p['op']
    if p.get('hasdef'):
        p['def'] = plain_default(p['def'])
    if op == 'regex':
        p.setdefault('flags', '')
    elif op == 'm':
        p.setdefault('refl', False)
    elif op in ('and', 'or', 'not'):
        p['c'] = [normalize(c) for c in p['c']]
    elif op == 'switch':
        p.setdefault('form', 'list')
        p['cases'] = [[normalize(k), normalize(v)] for k, v in p['cases']]
    elif op == 'check':
        p.setdefault('sub', [])
        p.setdefault('seq', 'list')
    elif op == 'match':
        p['sub'] = normalize(p['sub'])
    elif op in ('list', 'set', 'frozenset'):
        p['alts'] = [normalize(a) for a in p['alts']]
    elif op == 'tuple':
        p['elems'] = [normalize(a) for a in p['elems']]
    elif op == 'dict':
        p['items'] = [[normalize(k), normalize(v)] for k, v in p['items']]
    elif op in ('required', 'wrap'):
        p['key'] = normalize(p['key'])
    return p


def validate_rows(check, module, rows, label, chunk=4000):
    """vlib.validate_rows, which also returns how many rows the specification left unjudged (rows
    whose outcome depends on an order the documentation leaves open): (rejects, skipped)."""
    import os
    import shutil
    import tempfile
    from concurrent.futures import ThreadPoolExecutor
    rejects, skipped = [], 0
    scratch = tempfile.mkdtemp(prefix='glomverif_rows_')
    try:
        chunks = [rows[i:i + chunk] for i in range(0, len(rows), chunk)]

        def one(ci):
            path = os.path.join(scratch, 'rows_%d.ndjson' % ci)
            vlib.write_ndjson(path, chunks[ci])
            return ci, vlib.run_tlc(module, workers=1, env={'TRACE_FILE': path}, timeout=3600)
        with ThreadPoolExecutor(max_workers=min(8, max(1, len(chunks)))) as ex:
            for ci, res in ex.map(one, range(len(chunks))):
                vlib.tlc_must_pass(res, '%s chunk %d' % (module, ci))
                done = [j for j in res['json'] if 'done' in j]
                if not done or done[-1]['done'] != len(chunks[ci]):
                    raise vlib.MachineryError('%s consumed %s of %d rows' % (module, done, len(chunks[ci])))
                skipped += done[-1].get('skipped', 0)
                check.add_tlc(res, '%s[%s#%d]' % (module, label, ci))
                seen = set()
                for j in res['json']:
                    if 'reject' in j and j['reject'] not in seen:
                        seen.add(j['reject'])
                        rejects.append((chunks[ci][j['reject'] - 1], j))
                check.validated(len(chunks[ci]) - len(seen) - done[-1].get('skipped', 0))
    finally:
        shutil.rmtree(scratch, ignore_errors=True)
    return rejects, skipped
