"""Seeded random combinator trees for the code -> spec direction of C10: And / Or / Not /
Switch / Check to depth 5, constructor and operator forms, defaults, over a wider atom
alphabet than the exhaustive universe; random targets."""
import c09_build as B
import c09_gen as G

NONE = {'k': 'none'}


def val(x):
    if x is None:
        return NONE
    if isinstance(x, bool):
        return {'k': 'bool', 'b': x}
    if isinstance(x, int):
        return {'k': 'int', 'i': x}
    return {'k': 'str', 's': x}


def rand_target(rng):
    r = rng.random()
    if r < 0.03:
        return {'k': rng.choice(['any', 'grumpy'])}          # hostile ==: equal to everything / raising on foreign operands
    if r < 0.45:
        return G.rand_scalar(rng)
    if r < 0.5:
        return G.rand_set(rng)
    if r < 0.8:
        items, seen = [], set()
        for k in rng.sample(['a', 'b', 'ab', 0, 1, '', None], rng.randint(0, 3)):
            if k in seen:
                continue
            seen.add(k)
            v = G.rand_item(rng) if rng.random() < 0.75 else G.rand_tree(rng, 1)
            items.append({'key': val(k), 'val': v})
        return {'k': 'c', 'cls': rng.choice(['dict', 'dict', 'odict', 'fdict']), 'items': items}
    return {'k': 'c', 'cls': rng.choice(['list', 'tuple', 'flist', 'ntuple']), 'items': [G.rand_item(rng) for _ in range(rng.randint(0, 3))]}


def gen_default(rng):
    """a default: argument value -- a scalar, or a plain container, possibly holding T / T[..]"""
    if rng.random() < 0.65:
        return G.rand_scalar(rng)
    leaf = lambda: ({'k': 'targ', 'steps': gen_steps(rng) if rng.random() < 0.3 else []} if rng.random() < 0.5 else G.rand_scalar(rng))
    cls = rng.choice(['list', 'tuple', 'dict'])
    if cls == 'dict':
        return {'k': 'c', 'cls': 'dict', 'items': [{'key': val(k), 'val': leaf()} for k in rng.sample(['a', 'b', 1], rng.randint(0, 2))]}
    return {'k': 'c', 'cls': cls, 'items': [leaf() for _ in range(rng.randint(0, 2))]}


def gen_steps(rng):
    return [{'k': 'slice', 'lo': rng.randint(0, 2)} if rng.random() < 0.2 else val(rng.choice(['a', 'b', 'bb', 0, 1, -1]))
            for _ in range(rng.randint(1, 2))]


def gen_atom(rng, mode, counter):
    r = rng.random()
    rhs = val(rng.choice([0, 1, 2, 'a', 'b', '', None, True])) if rng.random() < 0.9 else G.rand_set(rng)
    cmp_ = rng.choice(['==', '!=', '<', '>', '<=', '>='])
    if r < 0.3:
        return {'op': 'm', 'cmp': cmp_, 'rhs': rhs, 'refl': rng.random() < 0.3}
    if r < 0.37:
        return {'op': 'mtruthy'}
    if r < 0.5:
        return {'op': 'msub', 'steps': gen_steps(rng), 'cmp': cmp_, 'rhs': rhs}
    if r < 0.55:
        return {'op': 'msubt', 'steps': gen_steps(rng)}
    if r < 0.63:
        return {'op': 'tget', 'steps': gen_steps(rng) if rng.random() < 0.8 else []}
    if r < 0.78:
        counter[0] += 1
        names = ['yes', 'no', 'zero', 'truthy', 'isnum', 'falsy', 'boom', 'boom_attr', 'recip', 'head']
        return {'op': 'pred', 'name': rng.choice(names), 'id': counter[0]}
    if r < 0.86:
        return gen_check(rng)
    if rng.random() < 0.25:          # a nested Match (switches an Auto-mode tree to match mode for its sub-pattern)
        hasdef = rng.random() < 0.5
        sub = rng.choice([{'op': 'type', 't': rng.choice(['int', 'str', 'dict', 'object'])}, {'op': 'lit', 'v': G.rand_scalar(rng)},
                          {'op': 'list', 'alts': [{'op': 'type', 't': 'int'}]},
                          {'op': 'dict', 'items': [[{'op': 'type', 't': 'str'}, {'op': 'type', 't': 'int'}]]}])
        return {'op': 'match', 'sub': sub, 'hasdef': hasdef, 'def': gen_default(rng) if hasdef else NONE}
    if mode == 'match':
        if rng.random() < 0.5:
            return {'op': 'type', 't': rng.choice(['int', 'str', 'bool', 'object', 'dict', 'list', 'NoneType'])}
        return {'op': 'lit', 'v': G.rand_scalar(rng)}
    if rng.random() < 0.5:
        return {'op': 'val', 'v': G.rand_scalar(rng)}
    return {'op': 'regex', 'name': rng.choice(['ra', 'rb', 'rs', 'rA']), 'func': rng.choice(['fullmatch', 'match', 'search']),
            'flags': rng.choice(['', 'I'])}


def gen_check(rng):
    tn = ['int', 'str', 'bool', 'dict', 'list', 'NoneType', 'object']
    types = rng.sample(tn[:6], rng.randint(1, 2)) if rng.random() < 0.35 else []
    inst = rng.sample(tn, rng.randint(1, 2)) if rng.random() < 0.35 else []
    vals, oneof = [], False
    r = rng.random()
    if r < 0.2:
        vals = [G.rand_scalar(rng)]
    elif r < 0.4:
        vals, oneof = [G.rand_scalar(rng) for _ in range(rng.randint(1, 3))], True
    validate = [{'op': 'pred', 'name': rng.choice(['yes', 'no', 'zero', 'truthy', 'isnum', 'boom', 'boom_attr', 'recip', 'head']), 'id': 0}
                for _ in range(rng.randint(1, 2))] if rng.random() < 0.45 else []
    hasdef = rng.random() < 0.4
    return {'op': 'check', 'sub': gen_steps(rng) if rng.random() < 0.3 else [], 'seq': rng.choice(['list', 'tuple']),
            'types': types, 'inst': inst, 'vals': vals, 'oneof': oneof, 'validate': validate,
            'hasdef': hasdef, 'def': gen_default(rng) if hasdef else NONE}


def op_left(p):
    return p['op'] in ('m', 'mtruthy', 'msub', 'and', 'or', 'not')


def drops_default(p):
    """the operator form whose left operand is the same combinator with a default (glom once
    flattened it and lost that default; repaired, kept as the spec mutant opform_drops_default)"""
    return (p['op'] in ('and', 'or') and p['form'] == 'op' and p['c'][0]['op'] == p['op'] and p['c'][0]['hasdef'])


def gen_tree(rng, mode, depth, counter):
    if depth <= 0 or rng.random() < 0.15:
        return gen_atom(rng, mode, counter)
    r = rng.random()
    if r < 0.55:
        op = rng.choice(['and', 'or'])
        kids = [gen_tree(rng, mode, depth - 1, counter) for _ in range(rng.randint(1, 3))]
        form = 'op' if len(kids) >= 2 and op_left(kids[0]) and rng.random() < 0.5 else 'ctor'
        hasdef = form == 'ctor' and rng.random() < 0.3
        p = {'op': op, 'c': kids, 'form': form, 'hasdef': hasdef, 'def': gen_default(rng) if hasdef else NONE}
        if form == 'op':
            # a & b & c is left-nested in Python: keep the AST binary so that it denotes what is written
            p['c'] = kids[:2]
        return p
    if r < 0.7:
        kid = gen_tree(rng, mode, depth - 1, counter)
        return {'op': 'not', 'c': [kid], 'form': 'op' if op_left(kid) and rng.random() < 0.5 else 'ctor'}
    cases = [[gen_tree(rng, mode, depth - 1, counter), gen_tree(rng, mode, depth - 1, counter)]
             for _ in range(rng.randint(1, 3))]
    hasdef = rng.random() < 0.4
    form = 'list'
    keys = [repr(k) for k, _ in cases]
    if rng.random() < 0.4 and len(set(keys)) == len(keys) and all(k['op'] not in ('mtruthy', 'msubt', 'lit', 'type') for k, _ in cases):
        form = 'dict'                # {key spec: value spec}: every key spec object is a distinct, hashable dict key
    return {'op': 'switch', 'cases': cases, 'form': form, 'hasdef': hasdef, 'def': gen_default(rng) if hasdef else NONE}
